"""Shared plumbing of the per-property drivers: source selection, evidence, findings, verdicts."""
from __future__ import annotations

import hashlib
import json
import math
import os
import sys
import time
from pathlib import Path

VERIF = Path(__file__).resolve().parent.parent
# (the mutation campaign relocates scratch and evidence so that runs against scratch copies can go in parallel)
WORK = Path(os.environ.get("VERIF_WORK_DIR", VERIF / "work"))
EVIDENCE = Path(os.environ.get("VERIF_EVIDENCE_DIR", VERIF / "evidence"))
FINDINGS_FILE = VERIF / "known_findings.json"

# The implementation under test: /repo's working tree unless SPECKIT_SRC points to a scratch copy
# (used only by the mutation campaign; registered checks never set it).
SRC = os.environ.get("SPECKIT_SRC", "/repo")


def use_repo():
    """Make `import speckit` resolve to the tree under test and silence its logging."""
    if sys.path[0] != SRC:
        sys.path.insert(0, SRC)
    os.environ.setdefault("SPECKIT_VERIF", "1")
    import logging
    logging.disable(logging.CRITICAL)
    import speckit  # noqa
    assert os.path.realpath(speckit.__file__).startswith(os.path.realpath(SRC)), speckit.__file__
    return speckit


def seed() -> int:
    try:
        return int(os.environ.get("VERIF_SEED", "0"))
    except ValueError:
        return 0


class Verdict:
    """Collects violations / known findings of one check run and writes evidence."""

    def __init__(self, pid: str, tier: str, level: str):
        self.pid, self.tier, self.level = pid, tier, level
        self.t0 = time.time()
        self.violations = []        # (signature, detail, replay_path)
        self.known = {}             # signature -> count
        self.cov = {"samples": []}
        self.assumptions = []
        self._seen = set()
        self._nontrivial = set()
        self.findings = load_findings(pid)
        (WORK / "replay").mkdir(parents=True, exist_ok=True)

    # ---- coverage accounting -------------------------------------------------
    def add(self, key: str, n: int = 1):
        self.cov[key] = int(self.cov.get(key, 0)) + int(n)

    def set(self, key: str, val):
        self.cov[key] = val

    def sample(self, obj, limit=5):
        if len(self.cov["samples"]) < limit:
            self.cov["samples"].append(obj)

    def case(self, obj, nontrivial: bool = True):
        """Count an evaluated case; distinct & non-trivial ones are counted by content hash."""
        self.add("evaluations")
        if nontrivial:
            h = hashlib.blake2b(json.dumps(obj, sort_keys=True, default=str).encode(), digest_size=8).digest()
            self._nontrivial.add(h)

    def model(self, res, label: str):
        """Account a TLC run (states/transitions are summed, details per run kept)."""
        self.add("states", res.distinct)
        self.add("transitions", res.states)
        runs = self.cov.setdefault("tlc_runs", [])
        runs.append({"label": label, "states_generated": res.states, "distinct_states": res.distinct,
                     "depth": res.depth, "wall_s": round(res.wall_s, 1),
                     "actions": {k: v[1] for k, v in res.coverage.items()} if res.coverage else None})
        if "checker_cmd" not in self.cov:
            self.cov["checker_cmd"] = res.cmd

    # ---- verdicts ------------------------------------------------------------
    def violation(self, signature: str, detail: dict):
        """Report a violation unless it is a listed open known finding."""
        for f in self.findings:
            if f.get("status") == "open" and signature_matches(f["signature"], signature):
                self.known[f["signature"]] = self.known.get(f["signature"], 0) + 1
                return False
        if signature in self._seen:
            for v in self.violations:
                if v[0] == signature:
                    v[3] += 1
            return True
        self._seen.add(signature)
        idx = len(self.violations) + 1
        path = WORK / "replay" / f"{self.pid}_{idx}.json"
        payload = {"property": self.pid, "signature": signature, **detail}
        path.write_text(json.dumps(payload, indent=1, default=str))
        self.violations.append([signature, detail, str(path), 1])
        return True

    def finish(self, rule: str = "", explanation: str = "") -> int:
        cov = self.cov
        cov.setdefault("evaluations", 0)
        cov["distinct_nontrivial"] = len(self._nontrivial) if self._nontrivial else int(cov.get("distinct_nontrivial", 0))
        if rule:
            cov["rule"] = rule
        if explanation:
            cov["explanation"] = explanation
        cov.setdefault("traces_validated_against_impl", 0)
        cov["known_findings_hit"] = self.known
        ev = {
            "property_id": self.pid,
            "tier": self.tier,
            "seed": seed(),
            "level": self.level,
            "coverage": cov,
            "assumptions": self.assumptions,
            "wall_s": round(time.time() - self.t0, 2),
            "violations": len(self.violations),
        }
        EVIDENCE.mkdir(exist_ok=True)
        (EVIDENCE / f"{self.pid}.json").write_text(json.dumps(ev, indent=1, default=str) + "\n")
        for f in self.findings:
            if f.get("status") == "open" and self.known.get(f["signature"]):
                print(f"KNOWN-FINDING: property={self.pid} {f['what']} [{f['signature']}] hits={self.known[f['signature']]}")
        for sig, detail, path, cnt in self.violations:
            print(f"VIOLATION property={self.pid} replay={path}")
            print(f"  signature: {sig} (x{cnt})")
            msg = detail.get("message")
            if msg:
                print(f"  {msg}")
        status = "FAIL" if self.violations else "ok"
        print(f"[{self.pid}] {status} tier={self.tier} evaluations={cov.get('evaluations')} "
              f"states={cov.get('states', 0)} traces={cov.get('traces_validated_against_impl', 0)} "
              f"wall={ev['wall_s']}s")
        return 1 if self.violations else 0


def load_findings(pid: str):
    if not FINDINGS_FILE.exists():
        return []
    data = json.loads(FINDINGS_FILE.read_text())
    return [f for f in data.get("findings", []) if f.get("property") == pid]


def signature_matches(pattern: str, sig: str) -> bool:
    """A finding's signature matches exactly or as a prefix ending at a '|' boundary."""
    return sig == pattern or sig.startswith(pattern + "|")


def close(a: float, b: float, rel=1e-9, abs_=1e-9) -> bool:
    if isinstance(a, complex) or isinstance(b, complex):
        return abs(a - b) <= abs_ + rel * max(abs(a), abs(b))
    if math.isnan(a) or math.isnan(b):
        return False
    return abs(a - b) <= abs_ + rel * max(abs(a), abs(b))


class CodeUnderTestError(Exception):
    """The tree under test raised on an in-domain input fed by a driver (drivers catch the exceptions the code is
    expected to raise themselves).  Reported as a violation of the property being checked, not as a machinery failure."""

    def __init__(self, where, exc_type, message, tb_text, item_repr):
        super().__init__(where, exc_type, message, tb_text, item_repr)
        self.where, self.exc_type, self.message, self.tb_text, self.item_repr = where, exc_type, message, tb_text, item_repr


def guard(fn, x):
    """Call fn(x); an exception whose traceback passes through the tree under test becomes CodeUnderTestError."""
    import traceback
    try:
        return fn(x)
    except CodeUnderTestError:
        raise
    except Exception as exc:
        tb = traceback.extract_tb(exc.__traceback__)
        src = os.path.realpath(SRC) + os.sep
        inside = [f for f in tb if os.path.realpath(f.filename).startswith(src)]
        if inside:
            last = inside[-1]
            raise CodeUnderTestError(f"{os.path.basename(last.filename)}:{last.name}", type(exc).__name__, str(exc)[:300],
                                     "".join(traceback.format_exception(type(exc), exc, exc.__traceback__))[-3000:], repr(x)[:2000]) from None
        raise


class _Guarded:
    def __init__(self, fn):
        self.fn = fn

    def __call__(self, x):
        return guard(self.fn, x)


def _worker_init(threads):
    os.environ["NUMBA_NUM_THREADS"] = str(max(1, threads))
    use_repo()


def pmap(fn, items, procs: int | None = None, chunksize: int = 64, threads: int = 1):
    """Parallel map over a spawn pool (fork is unsafe once numba's OpenMP layer is live).

    `fn` must be a module-level function of an importable module; each worker imports the tree
    under test itself and runs numba with `threads` threads.
    """
    import multiprocessing as mp
    items = list(items)
    if not items:
        return []
    procs = procs or min(os.cpu_count() or 4, 16)
    if procs <= 1:
        return [guard(fn, x) for x in items]
    procs = min(procs, len(items))          # always a fresh pool: workers must see the environment set by the caller
    ctx = mp.get_context("spawn")
    with ctx.Pool(procs, initializer=_worker_init, initargs=(threads,)) as pool:
        return pool.map(_Guarded(fn), items, chunksize=chunksize)
