"""Recorder for ResultTrace.tla: real analyses of float records and their variants, quantised."""
from __future__ import annotations

import math

import numpy as np

from .traces import q

Q = 2 ** 20
CAP = 2 ** 30


def qc(v, scale=Q):
    if not math.isfinite(v):
        return CAP
    return max(-CAP, min(CAP, int(round(v * scale))))


def make_record(spec):
    rng = np.random.default_rng(spec["seed"])
    N = spec["N"]
    x = rng.standard_normal(N)
    kind = spec["data"]
    if kind == "delay_coupled":
        y = 0.8 * np.roll(x, 3) + 0.6 * rng.standard_normal(N)
    elif kind == "independent":
        y = rng.standard_normal(N) * 2.0
    elif kind == "filtered":
        y = np.convolve(x, [0.5, -0.3, 0.2], mode="same") + 0.3 * rng.standard_normal(N) + 0.001 * np.arange(N)
    elif kind == "dynrange":
        # > 1e17 power dynamic range across bins, coherent everywhere (needs a 200 dB window: see trace_specs)
        t = np.arange(N)
        x = 1e4 * np.sin(0.011 * t + 0.3) + 1e-5 * x
        y = 0.7 * np.roll(x, 1) + 2e-6 * rng.standard_normal(N)
    elif kind == "drift":
        # non-stationary: the noise level grows by 3x across the record, so any re-weighting of segments shows
        x = x * np.linspace(0.5, 1.5, N)
        y = 0.9 * np.roll(x, 1) + 0.4 * rng.standard_normal(N) * np.linspace(1.5, 0.5, N)
    elif kind == "hugeoffset":
        # constant offsets 1e12 times the fluctuations: the mean must be removed before the projection (order >= 0 only)
        y = -5e8 + 1e-3 * (0.5 * x + rng.standard_normal(N))
        x = 1e9 + 1e-3 * x
    elif kind == "offset":
        y = 0.7 * x + 0.5 * rng.standard_normal(N) - 30.0
        x = x + 50.0 + 0.002 * np.arange(N)
    else:
        y = 1.5 * x + 0.2 * rng.standard_normal(N)
    amp = float(spec.get("amp", 1.0))        # physical unit of both channels: every clause of the trace specification is scale free
    if amp != 1.0:
        x, y = x * amp, y * amp
    return x, y


def analyze(data, fs, spec, **over):
    import speckit
    kw = dict(scheduler=spec["sched"], order=spec["order"], backend=spec["backend"], Jdes=spec["Jdes"], Kdes=spec["Kdes"],
              Lmin=spec.get("Lmin", 1), bmin=spec.get("bmin", 1.0))
    w = spec["win"]
    if w == "kaiser":
        kw.update(win="kaiser", psll=spec.get("psll", 120))
    elif w == "hann":
        kw.update(win="hann")
    elif w.startswith("sp:"):
        # the scipy window function itself as the callable (it has a `sym` keyword, default True): the configured window is fn(L)
        from scipy.signal import windows as spw
        kw.update(win=getattr(spw, w[3:]), olap=0.6)
    else:
        from scipy.signal import windows as spw
        fn = getattr(spw, w)
        kw.update(win=(lambda L, _f=fn: _f(int(L), sym=False)), olap=0.6)
    if "olap" in spec:
        kw["olap"] = spec["olap"]
    kw.update(over)
    with np.errstate(all="ignore"):
        return speckit.compute_spectrum(data, fs, **kw)


def bin_fields(r, j, s, hs):
    gxx, gyy = float(r.Gxx[j]), float(r.Gyy[j])
    root = math.sqrt(gxx * gyy) if gxx > 0 and gyy > 0 else 0.0
    g = r.Gxy[j] / root if root else 0j
    hnorm = math.sqrt(gyy / gxx) if gxx > 0 and gyy > 0 else 0.0
    h = r.Hxy[j] / hnorm if hnorm else 0j
    return {"coh": qc(float(r.coh[j])), "g": [qc(g.real), qc(g.imag)], "h": [qc(h.real), qc(h.imag)],
            "gxx": qc(gxx / s), "gyy": qc(gyy / s), "hn": qc(abs(r.Hxy[j]) / hs) if hs else 0}


def single_event(r):
    den = float(r.XX[0] * r.YY[0])
    return {"t": "single", "n": int(r.navg[0]), "K": int(r.K[0]), "nD": int(len(r.D[0])), "exx": qc(float(r.Gxx_error[0]), 4096),
            "dxx": qc(float(r.Gxx_dev[0] / r.Gxx[0]), 4096) if r.Gxx[0] else 0,
            "m2": qc(float(r.XY_M2[0]) / den) if den else 0, "ev": qc(float(r.XY_emp_var[0]) / den) if den else 0}


def error_ratios(r, j):
    """The C10 identities as ratios that must equal 1 (ResultTrace.tla ErrorRatios); -1 where undefined (coherence 0,
    coherence exactly 1 for the forms dividing by 1 - g2).  Valid for every coherence in (0, 1]."""
    g2 = float(r.coh[j])
    n = float(r.navg[j])
    out = dict(om=-1, kxy=-1, khm=-1, kco=-1, rdxy=-1, rdh=-1, rdcoh=-1, pr=-1, rd=-1)
    if not (g2 > 0):
        return out
    om = 1.0 - g2          # a coherence rounded above 1 (single-segment bins: 1 + 2e-16) is outside the textbook domain (0, 1]
    out["om"] = qc(abs(om))

    def div(a, b):
        return qc(a / b) if b != 0 else CAP

    exy, ehm, eco = float(r.Gxy_error[j]), float(r.Hxy_mag_error[j]), float(r.coh_error[j])
    ehr, ehd = float(r.Hxy_rad_error[j]), float(r.Hxy_deg_error[j])
    out["kxy"] = qc(exy * exy * g2 * n)
    out["rdxy"] = div(float(r.Gxy_dev[j]), abs(r.Gxy[j]) * exy)
    if om > 0:
        out["khm"] = qc(ehm * ehm * 2.0 * g2 * n / om)
        out["kco"] = qc(eco * eco * g2 * n / (2.0 * om * om))
        out["rdh"] = div(float(r.Hxy_dev[j]), abs(r.Hxy[j]) * ehm)
        out["rdcoh"] = div(float(r.coh_dev[j]), g2 * eco)
        out["pr"] = div(ehr, ehm)
        out["rd"] = div(ehd * math.pi, 180.0 * ehr)
    return out


def record_analysis(spec):
    """Reference two-channel analysis + variants.  Runs in a worker.  Estimates so inconsistent that they cannot even be normalised
    (a positive mean power next to a zero density, a negative product under a square root) are a verdict, not a crash."""
    try:
        return _record_analysis(spec)
    except (ZeroDivisionError, ValueError, OverflowError, FloatingPointError) as exc:
        import traceback
        tb = traceback.extract_tb(exc.__traceback__)
        if any((fr.filename or "").startswith(common_src()) for fr in tb):
            raise                                         # raised inside the code under test: reported by the generic guard
        return {"meta": dict(spec, nf=0, recorder_exception=f"{type(exc).__name__}: {exc} at {tb[-1].name}:{tb[-1].lineno}"), "c": {"nf": 0},
                "ev": [{"t": "broken"}]}


def common_src():
    import os
    from . import common
    return os.path.realpath(str(common.SRC)) + os.sep


def _record_analysis(spec):
    x, y = make_record(spec)
    fs = spec["fs"]
    ref = analyze(np.vstack([x, y]), fs, spec)
    nf = ref.nf
    s = float(max(ref.Gxx.max(), ref.Gyy.max()))
    hs = float(np.abs(ref.Hxy).max())
    emax = float(ref.ENBW.max())
    ev = []
    with np.errstate(all="ignore"):
        XX, YY = ref.XX, ref.YY
        for j in range(nf):
            e = {"t": "bin", "n": int(ref.navg[j]), "K": int(ref.K[j]), **bin_fields(ref, j, s, hs)}
            gyy = float(ref.Gyy[j])
            e.update(cx=qc(float(ref.GyyCx[j]) / gyy) if gyy else 0, rx=qc(float(ref.GyyRx[j]) / gyy) if gyy else Q,
                     sx=qc(float(ref.GyySx[j]) / gyy) if gyy else Q)
            coh = float(ref.coh[j])
            small = coh < 2 ** -8

            def er(v):
                return 0 if small else qc(float(v), 4096)
            e.update(exx=qc(float(ref.Gxx_error[j]), 4096), dxx=qc(float(ref.Gxx_dev[j] / ref.Gxx[j]), 4096) if ref.Gxx[j] else 0,
                     exy=er(ref.Gxy_error[j]), dxy=er(ref.Gxy_dev[j] / abs(ref.Gxy[j]) if abs(ref.Gxy[j]) else 0),
                     ehm=er(ref.Hxy_mag_error[j]), dh=er(ref.Hxy_dev[j] / abs(ref.Hxy[j]) if abs(ref.Hxy[j]) else 0),
                     ecoh=er(ref.coh_error[j]), dcoh=er(ref.coh_dev[j] / coh if coh else 0),
                     ehr=er(ref.Hxy_rad_error[j]), ehd=er(ref.Hxy_deg_error[j]))
            e.update(error_ratios(ref, j))
            den = float(XX[j] * YY[j])
            e.update(m2=qc(float(ref.XY_M2[j]) / den) if den else 0, ev=qc(float(ref.XY_emp_var[j]) / den) if den else 0,
                     ed=qc(float(ref.Gxy_emp_dev[j]) / math.sqrt(float(ref.Gxx[j] * ref.Gyy[j]))) if den else 0,
                     fq=qc(float(ref.f[j]) / fs), enbw=qc(float(ref.ENBW[j]) / emax))
            # views of the same estimate (C20)
            gyx = ref.Gyx[j] / math.sqrt(float(ref.Gxx[j] * ref.Gyy[j])) if den else 0j
            hyx = ref.Hyx[j] / math.sqrt(float(ref.Gyy[j] / ref.Gxx[j])) if den else 0j
            hsc = math.sqrt(float(ref.Gyy[j] / ref.Gxx[j])) if den else 1.0
            e.update(gyx=[qc(gyx.real), qc(gyx.imag)], hyx=[qc(hyx.real), qc(hyx.imag)], cfn=qc(float(ref.cf[j]) / hsc),
                     rad=qc(float(ref.cf_rad[j]), 4096), deg=qc(float(ref.cf_deg[j]), 4096),
                     csn=qc(abs(ref.cs[j]) / (s * emax)), csdn=qc(abs(ref.csd[j]) / s),
                     nonek=int(ref.psd is None and ref.asd is None and ref.ps is None and ref.Gxx_emp_dev is None),
                     tfsame=int(np.array_equal(ref.tf, ref.Hxy)))
            ev.append(e)
        idx = list(range(nf)) if nf <= 60 else sorted(set(int(v) for v in np.linspace(0, nf - 1, 60)))
        for var in spec["variants"]:
            kind = var[0]
            if kind == "swap":
                r = analyze(np.vstack([y, x]), fs, spec)
                if int(r.nf) != nf:          # the variant must be the same analysis: same bins (plans depend on N and the configuration only)
                    ev.append({"t": "shape", "kind": "swap", "nf": int(r.nf), "ref": int(nf)})
                    continue
                for j in idx:
                    ev.append({"t": "swap", "j": j + 1, **bin_fields(r, j, s, hs)})
            elif kind == "swapsingle":
                # single-bin requests at fractional bin numbers within 1e-4 rad of DC and of Nyquist, channels in both orders
                import speckit
                for (fq, Ls) in ((1.3e-5 * fs, 3001), (0.49999 * fs, 1000), (0.5 * fs - 2.1e-5 * fs, 777), (3.1e-5 * fs, 2500)):
                    kw1 = dict(L=min(Ls, spec["N"]), olap=0.5, win="hann", order=spec["order"], backend=spec["backend"])
                    r1 = speckit.compute_single_bin(np.vstack([x, y]), fs, fq, **kw1)
                    r2 = speckit.compute_single_bin(np.vstack([y, x]), fs, fq, **kw1)
                    n1 = math.sqrt(float(r1.Gxx[0] * r1.Gyy[0])) or 1.0
                    g1, g2 = r1.Gxy[0] / n1, r2.Gxy[0] / n1
                    ev.append({"t": "swap1", "g": [qc(g1.real), qc(g1.imag)], "gs": [qc(g2.real), qc(g2.imag)], "coh": qc(float(r1.coh[0])), "cohs": qc(float(r2.coh[0])),
                               "gxx": qc(float(r1.Gxx[0]) / max(float(r1.Gxx[0]), float(r1.Gyy[0]))), "gyys": qc(float(r2.Gyy[0]) / max(float(r1.Gxx[0]), float(r1.Gyy[0])))})
            elif kind == "alone":
                for ch, rec in ((1, x), (2, y)):
                    r = analyze(rec, fs, spec)
                    if int(r.nf) != nf:          # the variant must be the same analysis: same bins (plans depend on N and the configuration only)
                        ev.append({"t": "shape", "kind": "alone", "nf": int(r.nf), "ref": int(nf)})
                        continue
                    for j in idx:
                        ev.append({"t": "alone", "j": j + 1, "ch": ch, "gxx": qc(float(r.Gxx[j]) / s), "psd": qc(float(r.psd[j]) / s),
                                   "asd2": qc(float(r.asd[j]) ** 2 / s), "ps": qc(float(r.ps[j]) / (s * emax)), "enbw": qc(float(r.ENBW[j]) / emax),
                                   "nonek": int(all(getattr(r, nm) is None for nm in ("csd", "coh", "Hxy", "tf", "cf", "cf_db", "cf_rad", "GyySx", "Gxy_dev", "coh_error", "Gxy_emp_dev")))})
            elif kind == "scale":
                _, cn, cd, dn, dd = var
                r = analyze(np.vstack([x * cn / cd, y * dn / dd]), fs, spec)
                if int(r.nf) != nf:          # the variant must be the same analysis: same bins (plans depend on N and the configuration only)
                    ev.append({"t": "shape", "kind": "scale", "nf": int(r.nf), "ref": int(nf)})
                    continue
                for j in idx:
                    ev.append({"t": "scale", "j": j + 1, "cn": cn, "cd": cd, "dn": dn, "dd": dd, **bin_fields(r, j, s, hs)})
            elif kind == "tiny":
                eps = 2.0 ** var[1]
                r = analyze(np.vstack([x * eps, y * eps]), fs, spec)
                if int(r.nf) != nf:          # the variant must be the same analysis: same bins (plans depend on N and the configuration only)
                    ev.append({"t": "shape", "kind": "tiny", "nf": int(r.nf), "ref": int(nf)})
                    continue
                for j in idx:
                    ev.append({"t": "tiny", "j": j + 1, "e": int(var[1]), **bin_fields(r, j, s * eps * eps, hs)})
            elif kind == "relabel":
                _, an, ad = var
                r = analyze(np.vstack([x, y]), fs * an / ad, spec)
                if int(r.nf) != nf:          # the variant must be the same analysis: same bins (plans depend on N and the configuration only)
                    ev.append({"t": "shape", "kind": "relabel", "nf": int(r.nf), "ref": int(nf)})
                    continue
                for j in idx:
                    ev.append({"t": "relabel", "j": j + 1, "an": an, "ad": ad, "fq": qc(float(r.f[j]) / fs), "enbw": qc(float(r.ENBW[j]) / emax),
                               **bin_fields(r, j, s, hs)})
            elif kind == "relabelx":
                # the same samples labelled with a sampling rate a*fs for an arbitrary real a (hours <-> Hz): the recorder divides a out again,
                # so every field must equal the reference bin's
                a = float(var[1])
                r = analyze(np.vstack([x, y]), fs * a, spec)
                if int(r.nf) != nf:
                    ev.append({"t": "shape", "kind": "relabelx", "nf": int(r.nf), "ref": int(nf)})
                    continue
                for j in idx:
                    ev.append({"t": "relabelx", "j": j + 1, "fq": qc(float(r.f[j]) / (fs * a)), "enbw": qc(float(r.ENBW[j]) / (emax * a)),
                               "L": int(r.L[j]), "Lref": int(ref.L[j]), "K": int(r.K[j]), "Kref": int(ref.K[j]), **bin_fields(r, j, s / a, hs)})
            elif kind == "enbw":
                for j in idx:
                    L = int(ref.L[j])
                    if spec["win"] == "kaiser":
                        from speckit.utils import kaiser_alpha
                        w = np.kaiser(L + 1, kaiser_alpha(spec.get("psll", 120)) * np.pi)[:-1]
                    elif spec["win"] == "hann":
                        w = np.hanning(L)
                    elif spec["win"].startswith("sp:"):
                        from scipy.signal import windows as spw
                        w = getattr(spw, spec["win"][3:])(L)
                    else:
                        from scipy.signal import windows as spw
                        w = getattr(spw, spec["win"])(L, sym=False)
                    s1, s2 = float(np.sum(w)), float(np.sum(w * w))
                    if s1 == 0:
                        continue
                    ev.append({"t": "enbw", "enbwq": qc(float(ref.ENBW[j]) * L / fs, 2 ** 16), "enbwx": qc(L * s2 / (s1 * s1), 2 ** 16)})
            elif kind == "refbin":
                # every sampled bin of the full analysis against the reference estimator called directly with that bin's own
                # plan entry (f[j], L[j], D[j]) and an independently built window
                from speckit import core
                from speckit.utils import kaiser_alpha
                order = spec["order"]
                for j in idx:
                    L = int(ref.L[j])
                    if spec["win"] == "kaiser":
                        w = np.kaiser(L + 1, kaiser_alpha(spec.get("psll", 120)) * np.pi)[:-1]
                    elif spec["win"] == "hann":
                        w = np.hanning(L)
                    elif spec["win"].startswith("sp:"):
                        from scipy.signal import windows as spw
                        w = getattr(spw, spec["win"][3:])(L)
                    else:
                        from scipy.signal import windows as spw
                        w = getattr(spw, spec["win"])(L, sym=False)
                    w = np.ascontiguousarray(w, dtype=np.float64)
                    starts = np.ascontiguousarray(ref.D[j], dtype=np.int64)
                    om = 2.0 * np.pi * float(ref.f[j]) / fs
                    name = {-1: "_stats_win_only_csd", 0: "_stats_detrend0_csd", 1: "_stats_poly_csd", 2: "_stats_poly_csd"}[order]
                    args = [np.ascontiguousarray(x), np.ascontiguousarray(y), starts, L, w, om]
                    if order >= 1:
                        args.append(core._build_Q(L, order))
                    if spec.get("refdef") or (order >= 1 and int(ref.K[j]) * L <= 400000 and int(ref.K[j]) <= 64):
                        # few-segment bins with polynomial detrending (cheap, and well conditioned once the trend is gone): the reference is
                        # the definition itself, accumulated in long double, with its own least-squares detrending - independent of the
                        # library's projection basis.  Orders -1 and 0 keep the kernel as reference (bound to the definition by C01):
                        # with undetrended offsets or 1e17 dynamic range the Goertzel recurrence has a rounding budget of its own.
                        from .drivers.C01 import _definition
                        mxx, myy, mr, mi, m2 = _definition(x, y, starts, L, w, om, order, "csd")
                    else:
                        mxx, myy, mr, mi, m2 = (float(v) for v in getattr(core, name)(*args))
                    sc = max(mxx, myy)
                    if spec["data"] == "dynrange" and sc < 1e-10 * float(max(np.max(ref.XX), np.max(ref.YY))):
                        # floor bins 100 dB and more below the line: the NumPy product and the Goertzel recurrence round relative to the
                        # size of the record, not of the bin (1e-4 of a bin that is 1e-17 of the record)
                        continue
                    if not (sc > 1e-150):          # an all-zero window (hann, L = 2): every statistic is exactly 0
                        sc = 1.0
                    ev.append({"t": "refbin", "q": [qc(float(ref.XX[j]) / sc), qc(float(ref.YY[j]) / sc), qc(float(ref.XY[j].real) / sc), qc(float(ref.XY[j].imag) / sc),
                                                    qc(float(ref.M2[j]) / (sc * sc))],
                               "x": [qc(mxx / sc), qc(myy / sc), qc(mr / sc), qc(mi / sc), qc(m2 / (sc * sc))],
                               "s12": qc(float(ref.S12[j]) / (L * L)), "xs12": qc(float(np.sum(w)) ** 2 / (L * L)), "s2": qc(float(ref.S2[j]) / L), "xs2": qc(float(np.sum(w * w)) / L),
                               "K": int(ref.K[j]), "nD": int(starts.size), "navg": int(ref.navg[j])})
            elif kind == "winsum":
                # two Kaiser analyses with different side-lobe levels in the same process, same lengths:
                # the stored window sums must be those of the window configured for each analysis
                from speckit.utils import kaiser_alpha
                for psll in var[1:]:
                    sp2 = dict(spec, win="kaiser", psll=psll)
                    r = analyze(np.vstack([x, y]), fs, sp2)
                    for j in ([0, r.nf // 2, r.nf - 1] if r.nf > 3 else range(r.nf)):
                        L = int(r.L[j])
                        w = np.kaiser(L + 1, kaiser_alpha(psll) * np.pi)[:-1]
                        s1, s2 = float(np.sum(w)), float(np.sum(w * w))
                        if L < 2 or s1 <= 0:
                            continue
                        ev.append({"t": "winsum", "psll": int(psll), "L": L, "s12": qc(float(r.S12[j]) / (L * L)), "s2": qc(float(r.S2[j]) / L),
                                   "xs12": qc(s1 * s1 / (L * L)), "xs2": qc(s2 / L),
                                   "enbwq": qc(float(r.ENBW[j]) * L / fs, 2 ** 16), "enbwx": qc(L * s2 / (s1 * s1), 2 ** 16)})
            elif kind == "sine":
                # a sinusoid analysed at its own frequency with a low-sidelobe window: ps = A^2/2 (contract clause)
                import speckit
                from speckit.utils import kaiser_alpha
                rngs = np.random.default_rng(spec["seed"] + 17)
                for _ in range(var[1]):
                    A = float(rngs.choice([1.0, 1.5, 7.0, 0.01]))
                    psll = float(rngs.choice([60, 100, 140, 200]))
                    L = int(rngs.choice([64, 100, 257, 1000, spec["N"]]))
                    alpha = kaiser_alpha(psll)
                    width = math.sqrt(1 + alpha * alpha) + 1.0            # main-lobe half width in bins (+1)
                    b0 = float(rngs.uniform(2 * width, L / 2 - 2 * width)) if L / 2 > 4 * width + 1 else None
                    if b0 is None:
                        continue
                    f0 = b0 * fs / L
                    ph = float(rngs.uniform(0, 2 * math.pi))
                    sig = A * np.cos(2 * math.pi * f0 / fs * np.arange(spec["N"]) + ph)
                    mode = rngs.choice(["L", "fres", "plan"])
                    kwa = dict(win="kaiser", psll=psll, order=int(rngs.choice([-1, 0])), backend=spec["backend"])
                    if mode == "L":
                        r = speckit.compute_single_bin(sig, fs, f0, L=L, **kwa)
                    elif mode == "fres":
                        r = speckit.compute_single_bin(sig, fs, f0, fres=fs / (L + 0.37), **kwa)
                    else:
                        Kp = max(1, (spec["N"] - L) // max(1, L // 4) + 1)
                        Dp = np.round(np.linspace(0, spec["N"] - L, Kp)).astype(np.int64)
                        plan = {"f": np.array([f0]), "r": np.array([fs / L]), "b": np.array([f0 * L / fs]), "L": np.array([L]),
                                "K": np.array([Kp]), "navg": np.array([Kp]), "D": [Dp], "O": np.array([0.0])}
                        r = speckit.SpectrumAnalyzer(sig, fs, scheduler=(lambda **kw: plan), **kwa).compute()
                    Lr = int(r.L[0])
                    w = np.kaiser(Lr + 1, alpha * np.pi)[:-1]
                    s1, s2 = float(np.sum(w)), float(np.sum(w * w))
                    ev.append({"t": "sine", "psq": qc(float(r.ps[0]) / (A * A / 2)), "bound": qc(8 * 10 ** (-psll / 20)) + 4,
                               "enbwq": qc(float(r.ENBW[0]) * Lr / fs, 2 ** 16), "enbwx": qc(Lr * s2 / (s1 * s1), 2 ** 16), "mode": str(mode)})
            elif kind == "single":
                # single-bin analyses: the error bars must use the number of segments actually averaged
                import speckit
                rngs = np.random.default_rng(spec["seed"] + 23)
                for _ in range(var[1]):
                    L = int(rngs.choice([100, 333, 1000, spec["N"] // 3, spec["N"] // 2 + 1]))
                    ol = float(rngs.choice([0.0, 0.0, 0.5, 0.3]))
                    fq = float(rngs.uniform(0.05, 0.45)) * fs
                    r = speckit.compute_single_bin(np.vstack([x, y]), fs, fq, L=L, olap=ol, win="hann", order=spec["order"], backend=spec["backend"])
                    ev.append(single_event(r))
                # heavily overlapped short segments: (1 - olap) * L < 1, so the rounded start positions repeat
                r = speckit.compute_single_bin(np.vstack([x, y]), fs, 0.21 * fs, L=4, olap=0.9, win="hann", order=spec["order"], backend=spec["backend"])
                ev.append(single_event(r))
            elif kind == "identical":
                # a record tiled from one block, analysed with segments of that block's length and no overlap: every segment gives bit-identical
                # products, the scatter about their mean is exactly zero - never negative, and its root is 0, not NaN
                import speckit
                rngi = np.random.default_rng(spec["seed"] + 61)
                for P, reps in ((64, 3), (64, 5), (100, 6), (64, 7), (100, 9), (64, 10), (64, 11), (100, 13), (64, 30)):   # the mean of K identical numbers
                    blk = rngi.standard_normal(P)                                                                         # is exact only for some K
                    blk2 = 0.5 * blk + rngi.standard_normal(P)
                    xt, yt = np.tile(blk, reps), np.tile(blk2, reps)
                    r = speckit.compute_single_bin(np.vstack([xt, yt]), fs, 0.2 * fs, L=P, olap=0.0, win="hann", order=spec["order"], backend=spec["backend"])
                    m2 = float(r.XY_M2[0])
                    dev = float(r.Gxy_emp_dev[0])
                    ev.append({"t": "identical", "K": int(r.K[0]), "m2sign": int(m2 > 0) - int(m2 < 0), "evsign": int(float(r.XY_emp_var[0]) > 0) - int(float(r.XY_emp_var[0]) < 0),
                               "devfinite": int(math.isfinite(dev) and math.isfinite(float(r.XY_emp_dev[0]))),
                               "m2rel": qc(m2 / max(float(r.XX[0] * r.YY[0]), 1e-300), 2 ** 30)})
            elif kind == "beat":
                # two oscillators beating by exactly one cycle over the record: strong lines in the analysed bin of every segment,
                # relative phase advancing by 2 pi/n per segment -> the averaged cross spectrum cancels to rounding level and the
                # coherence is tiny (1e-30) but strictly positive; every error bar must still be its textbook function
                import speckit
                for nseg in (8, 16, 25):
                    Lb = 1000
                    Nb = nseg * Lb
                    tt = np.arange(Nb) / fs
                    f0 = 64.0 * fs / Lb
                    xb = np.cos(2 * np.pi * f0 * tt)
                    yb = 0.7 * np.cos(2 * np.pi * (f0 + fs / Nb) * tt + 0.3)
                    r = speckit.compute_single_bin(np.vstack([xb, yb]), fs, f0, L=Lb, olap=0.0, win="hann", order=spec["order"], backend=spec["backend"])
                    ev.append({"t": "errs", "n": int(r.navg[0]), "nD": int(len(r.D[0])), "tiny": int(0 < float(r.coh[0]) < 1e-16), **error_ratios(r, 0)})
            elif kind == "nearunity":
                # proportional channels with a noise floor 1e-6 .. 1e-5 below: 1 - coherence ~ 1e-13 .. 1e-10
                rngn = np.random.default_rng(spec["seed"] + 31)
                for lvl in (1e-6, 1e-5):
                    r = analyze(np.vstack([x, 1.5 * x + lvl * rngn.standard_normal(spec["N"])]), fs, spec)
                    for j in ([0, r.nf // 3, r.nf // 2, r.nf - 1] if r.nf > 4 else range(r.nf)):
                        ev.append({"t": "errs", "n": int(r.navg[j]), "nD": int(len(r.D[j])), "tiny": 0, **error_ratios(r, j)})
            elif kind == "gain":
                g = var[1]
                r = analyze(np.vstack([x, g * x]), fs, spec)
                if int(r.nf) != nf:          # the variant must be the same analysis: same bins (plans depend on N and the configuration only)
                    ev.append({"t": "shape", "kind": "gain", "nf": int(r.nf), "ref": int(nf)})
                    continue
                if spec.get("gain_nonfinite", True) and spec["backend"] != "cuda":
                    # the same pair with gaps (NaN / inf at the same places in both channels: zero-filled, y is still g*x)
                    xn = x.copy()
                    xn[[5, spec["N"] // 2, spec["N"] - 3]] = [np.nan, np.inf, -np.inf]
                    rn = analyze(np.vstack([xn, g * xn]), fs, spec)
                    if int(rn.nf) != nf:
                        ev.append({"t": "shape", "kind": "gain_nonfinite", "nf": int(rn.nf), "ref": int(nf)})
                    else:
                        for j in idx[:20]:
                            hg = rn.Hxy[j] / g
                            ev.append({"t": "gain", "hg": [qc(hg.real), qc(hg.imag)], "coh": qc(float(rn.coh[j])), "dead": int(float(rn.S2[j]) == 0.0)})
                for j in idx:
                    hg = r.Hxy[j] / g
                    ev.append({"t": "gain", "hg": [qc(hg.real), qc(hg.imag)], "coh": qc(float(r.coh[j])), "dead": int(float(r.S2[j]) == 0.0)})
            elif kind == "delay":
                d = var[1]
                xw = np.random.default_rng(spec["seed"] + 99).standard_normal(spec["N"] + d)     # broadband, no trend: a true delay
                r = analyze(np.vstack([xw[d:], xw[:-d]]), fs, spec)
                for j in idx:
                    ph = -2 * math.pi * float(r.f[j]) * d / fs
                    hh = r.Hxy[j]
                    ev.append({"t": "delay", "d": d, "L": int(r.L[j]), "h": [qc(hh.real), qc(hh.imag)], "cp": qc(math.cos(ph)), "sp": qc(math.sin(ph)), "tight": 0, "K": int(r.K[j])})
                # the same phase read through the unwrapped-degrees accessor (modulo 360)
                udeg = np.asarray(r.cf_deg_unwrapped, dtype=float)
                for j in idx[::3]:
                    ph = -2 * math.pi * float(r.f[j]) * d / fs
                    hu = abs(r.Hxy[j]) * complex(math.cos(math.radians(udeg[j])), math.sin(math.radians(udeg[j])))
                    ev.append({"t": "delay", "d": d, "L": int(r.L[j]), "h": [qc(hu.real), qc(hu.imag)], "cp": qc(math.cos(ph)), "sp": qc(math.sin(ph)), "tight": 0, "K": int(r.K[j])})
            elif kind == "delayline":
                # a single-segment bin (K = 1, L = N) at bin number 4 carrying a line that completes 4 cycles in the record: the delayed
                # copy is exactly the phase-shifted line, so H = exp(-i 2 pi f d/fs) without averaging and without edge effect
                Nn = spec["N"]
                d = Nn // 40
                tt = np.arange(Nn)
                rngl = np.random.default_rng(spec["seed"] + 57)
                xl = np.cos(2 * np.pi * 4 * tt / Nn + 0.7) + 1e-4 * rngl.standard_normal(Nn)
                yl = np.cos(2 * np.pi * 4 * (tt - d) / Nn + 0.7) + 1e-4 * rngl.standard_normal(Nn)
                r = analyze(np.vstack([xl, yl]), fs, dict(spec, bmin=4.0, win="hann" if spec["win"] == "kaiser" else spec["win"]))
                if int(r.K[0]) == 1 and int(r.L[0]) == Nn and abs(float(r.f[0]) * Nn / fs - 4.0) < 1e-6:      # (lpsd fixes bmin = 1: no such bin)
                    ph = -2 * math.pi * float(r.f[0]) * d / fs
                    hh = r.Hxy[0]
                    ev.append({"t": "delayline", "d": d, "h": [qc(hh.real), qc(hh.imag)], "cp": qc(math.cos(ph)), "sp": qc(math.sin(ph))})
            elif kind == "delaysingle":
                # single-bin requests by resolution (fs/fres not an integer) on a long white record delayed by d = L/32 samples:
                # with K > 3000 segments the phase scatter is sqrt(d/(L K)) < 0.0035 rad, and for a symmetric window the expected
                # cross spectrum is exp(-i w d) times a positive number, so the phase AT THE REPORTED FREQUENCY is -2 pi f d/fs
                import speckit
                rngd = np.random.default_rng(spec["seed"] + 41)
                for _ in range(var[1]):
                    Lr = int(rngd.choice([64, 96, 128]))
                    d = Lr // 32
                    xw = rngd.standard_normal(100000 + d)
                    an = speckit.SpectrumAnalyzer(np.vstack([xw[d:], xw[:-d]]), fs, order=spec["order"], win="hann", olap=0.5,
                                                  backend=spec["backend"] if spec["backend"] != "cuda" else "numba")     # (the CUDA simulator is too slow for 1e5 samples)
                    delta = float(rngd.uniform(0.3, 0.45)) * (1 if rngd.random() < 0.5 else -1)
                    fq = float(rngd.uniform(2.0, 3.0)) * fs / (2 * math.pi)
                    r = an.compute_single_bin(fq, fres=fs / (Lr + delta))
                    ph = -2 * math.pi * float(r.f[0]) * d / fs
                    hh = r.Hxy[0]
                    ev.append({"t": "delay", "d": d, "L": int(r.L[0]), "h": [qc(hh.real), qc(hh.imag)], "cp": qc(math.cos(ph)), "sp": qc(math.sin(ph)),
                               "tight": int(int(r.K[0]) >= 3000 and int(r.L[0]) >= 32 * d), "K": int(r.K[0])})
    meta = dict(spec, nf=nf)
    return {"meta": meta, "c": {"nf": nf}, "ev": ev}
