"""Schedulers (C02-C04): configuration grids, plan recorder (code -> SchedTrace.tla),
replay of Sched.tla's plans into ltf_plan / lpsd_plan, Jdes search conformance."""
from __future__ import annotations

import math
import random
from fractions import Fraction

import numpy as np

from . import traces

SCHEDS = {"lpsd": "lpsd_plan", "ltf": "ltf_plan", "vectorized": "vectorized_ltf_plan", "new": "new_ltf_plan"}
ANALYZER_NAME = {"lpsd": "lpsd", "ltf": "ltf", "vectorized": "vectorized_ltf", "new": "new_ltf"}
FULL_D_LIMIT = 256
HUGE_N = 2 ** 18          # beyond this the Q12 frequency clauses leave 32-bit arithmetic: SchedTrace.tla HBin


def ulps(a: float, b: float) -> int:
    """|a-b| in units in the last place of the larger magnitude (capped)."""
    if a == b:
        return 0
    u = math.ulp(max(abs(a), abs(b)))
    d = abs(a - b) / u
    return int(min(d, 10 ** 6) + 0.5)


def call_scheduler(cfg):
    from speckit import schedulers
    fn = getattr(schedulers, SCHEDS[cfg["sched"]])
    # lpsd_plan is documented to ignore bmin / Lmin (it fixes them to 1): they are passed all the same, as the analyzer does
    kw = dict(N=cfg["N"], fs=cfg["fs"], olap=cfg["on"] / cfg["od"], Jdes=cfg["Jdes"], Kdes=cfg["Kdes"],
              bmin=cfg["bn"] / cfg["bd"], Lmin=cfg["Lmin"])
    return fn(**kw)


def effective(cfg):
    """lpsd fixes bmin = 1 and Lmin = 1."""
    if cfg["sched"] == "lpsd":
        return dict(cfg, bn=1, bd=1, Lmin=1)
    return cfg


def record_plan(cfg):
    """Runs in a worker: one plan -> one trace (meta, c, ev)."""
    import speckit
    e = effective(cfg)
    N, fs = cfg["N"], cfg["fs"]
    cval = (N / 2) ** (1.0 / cfg["Jdes"]) - 1.0
    qc = int(round(cval * 65536))
    rho = (N / (2.0 * e["bn"] / e["bd"])) ** (1.0 / (10 * cfg["Jdes"] - 1)) if cfg["sched"] == "vectorized" else 1.0
    qrho = int(math.ceil(rho * 2 ** 20)) + 1
    c = dict(N=N, on=cfg["on"], od=cfg["od"], bn=e["bn"], bd=e["bd"], Lmin=e["Lmin"], Jdes=cfg["Jdes"],
             Kdes=cfg["Kdes"], sched=cfg["sched"], qc=min(qc, 2 ** 30), qrho=min(qrho, 2 ** 30),
             logsp=1 if (N <= 512 and 1000 <= qc < 2 ** 30 and qrho < 2 ** 29) else 0)
    meta = dict(cfg)
    ev = []
    try:
        # schedulers are pure functions of their arguments: calls made earlier in the same process (same configuration
        # but for ONE parameter) must leave no trace in this plan
        for pre in cfg.get("pre", ()):
            try:
                call_scheduler(dict(cfg, **pre))
            except BaseException:
                pass
        p = call_scheduler(cfg)
    except BaseException as exc:  # sys.exit(-1) in the scheduler is a SystemExit
        meta["scheduler_exception"] = f"{type(exc).__name__}: {exc}"
        return {"meta": meta, "c": c, "ev": [{"t": "built", "ok": 0, "same": 0, "eqltf": 1}]}
    eqltf = 1
    if cfg["sched"] == "lpsd":
        # LPSD is documented as the LTF scheduler with bmin = 1 and Lmin = 1
        try:
            p2 = call_scheduler(dict(cfg, sched="ltf", bn=1, bd=1, Lmin=1))
            eqltf = int(all(np.array_equal(np.asarray(p[k]), np.asarray(p2[k])) for k in ("f", "r", "b", "L", "K", "navg"))
                        and len(p["D"]) == len(p2["D"]) and all(np.array_equal(np.asarray(a_), np.asarray(b_)) for a_, b_ in zip(p["D"], p2["D"])))
        except BaseException:
            eqltf = 0
    try:
        f, r, b, L, K, navg, D, O = (p[k] for k in ("f", "r", "b", "L", "K", "navg", "D", "O"))
        nf = len(f)
        bmin_f = e["bn"] / e["bd"]
        for j in range(nf):
            d = np.asarray(D[j], dtype=np.int64)
            Lj, Kj = int(L[j]), int(K[j])
            nD = int(d.size)
            fj, rj, bj = float(f[j]), float(r[j]), float(b[j])
            evj = {"t": "bin" if N <= HUGE_N else "hbin", "L": Lj, "K": Kj, "navg": int(navg[j]), "nD": nD}
            if nD == 0:
                evj.update(D=[], d0=-1, dlast=-1, mind=0, dev2=0)
            else:
                diffs = np.diff(d)
                ideal2 = None
                if nD > 1:
                    i = np.arange(nD, dtype=np.int64)
                    ideal2 = int(np.max(2 * np.abs(d * (nD - 1) - i * (N - Lj))))
                evj.update(D=[int(v) for v in d] if (N <= FULL_D_LIMIT and nD > 1) else [],
                           d0=int(d[0]), dlast=int(d[-1]), mind=int(diffs.min()) if nD > 1 else 0,
                           dev2=min(ideal2 or 0, 2 ** 30))
            qf = traces.q(fj * N / fs, 4096) if N <= HUGE_N else 0
            evj.update(qf=qf, qb=traces.q(min(bj, 2 ** 17), 4096), qO=traces.q(float(O[j]), 2 ** 20),
                       rl=ulps(rj * Lj, fs),
                       step=ulps(float(f[j + 1]), fj + rj) if j + 1 < nf else 0,
                       bu=ulps(bj, fj * Lj / fs), f0u=ulps(fj, bmin_f * fs / N) if j == 0 else 0,
                       nyq=(-1 if fj < fs / 2 else (0 if fj == fs / 2 else 1)))
            ev.append(evj)
        meta["nf"] = nf
        # (evidence only) how many bins are in the unclamped log-spaced regime, evaluated in floating point
        xovf = 1.0 - cfg["on"] / cfg["od"]
        FL = 1.0 + xovf * (cfg["Kdes"] - 1)
        meta["unclamped_bins"] = int(sum(1 for j in range(nf) if c["logsp"] and cfg["sched"] != "new" and float(f[j]) * N / fs * cval > FL * (1 + 2 ** -8)
                                          and 1.0 / cval > bmin_f + 1 / 256 and max(1, e["Lmin"]) < int(L[j]) < N and int(K[j]) > 1))
        meta["bmin_branch_bins"] = int(sum(1 for j in range(nf) if float(b[j]) == bmin_f))
    except Exception as exc:
        meta["recorder_exception"] = f"{type(exc).__name__}: {exc}"
        ev.append({"t": "built", "ok": 0, "same": 0, "eqltf": eqltf})
        return {"meta": meta, "c": c, "ev": ev}
    # the analyzer path: the scheduler selected by name and passed as the callable itself (both are public forms)
    ok = 1
    same = 1
    from speckit import schedulers as _sch
    for how, sel in (("name", ANALYZER_NAME[cfg["sched"]]), ("callable", getattr(_sch, SCHEDS[cfg["sched"]]))):
        try:
            a = speckit.SpectrumAnalyzer(np.zeros(N), fs, olap=cfg["on"] / cfg["od"], bmin=cfg["bn"] / cfg["bd"],
                                         Lmin=cfg["Lmin"], Jdes=cfg["Jdes"], Kdes=cfg["Kdes"], scheduler=sel)
            pl = a.plan()
            if int(pl["nf"]) != len(ev):
                ok = 0
                meta["analyzer_exception"] = f"analyzer ({how}) plan has {pl['nf']} bins, scheduler {len(ev)}"
            else:
                # the analyzer only forwards the configuration: its plan must be the scheduler's plan
                for fld in ("f", "r", "L", "K", "navg"):
                    if not np.array_equal(np.asarray(pl[fld]), np.asarray(p[fld]).astype(np.asarray(pl[fld]).dtype)):
                        same = 0
                        meta["analyzer_plan_differs_in"] = f"{fld} ({how})"
                        break
                else:
                    if not all(np.array_equal(np.asarray(a_), np.asarray(b_)) for a_, b_ in zip(pl["D"], D)):
                        same = 0
                        meta["analyzer_plan_differs_in"] = f"D ({how})"
        except BaseException as exc:
            ok = 0
            meta["analyzer_exception"] = f"({how}) {type(exc).__name__}: {exc}"
    # a band whose edges ARE plan frequencies (taken from the full plan): the restricted plan is that slice of the full plan, field by field
    if ok and nf >= 4 and N <= 5000:
        j1, j2 = 1, nf - 2
        try:
            ab = speckit.SpectrumAnalyzer(np.zeros(N), fs, olap=cfg["on"] / cfg["od"], bmin=cfg["bn"] / cfg["bd"], Lmin=cfg["Lmin"], Jdes=cfg["Jdes"],
                                          Kdes=cfg["Kdes"], scheduler=ANALYZER_NAME[cfg["sched"]], band=(float(f[j1]), float(f[j2])))
            pb = ab.plan()
            if int(pb["nf"]) != j2 - j1 + 1:
                same = 0
                meta["analyzer_plan_differs_in"] = f"band slice: {pb['nf']} bins, expected {j2 - j1 + 1}"
            else:
                for fld in ("f", "L", "K", "navg"):
                    if not np.array_equal(np.asarray(pb[fld]), np.asarray(p[fld])[j1:j2 + 1].astype(np.asarray(pb[fld]).dtype)):
                        same = 0
                        meta["analyzer_plan_differs_in"] = f"{fld} (band slice)"
                if not all(np.array_equal(np.asarray(a_), np.asarray(b_)) for a_, b_ in zip(pb["D"], D[j1:j2 + 1])):
                    same = 0
                    meta["analyzer_plan_differs_in"] = "D (band slice)"
        except BaseException as exc:
            ok = 0
            meta["analyzer_exception"] = f"(band) {type(exc).__name__}: {exc}"
    ev.append({"t": "built", "ok": ok, "same": same if ok else 0, "eqltf": eqltf})
    return {"meta": meta, "c": c, "ev": ev}


def record_count(cfg):
    """Bin counts of the vectorised and the iterative scheduler for one configuration."""
    try:
        a = call_scheduler(dict(cfg, sched="vectorized"))["nf"]
        b = call_scheduler(dict(cfg, sched="ltf"))["nf"]
    except BaseException as exc:
        return {"meta": dict(cfg, exception=repr(exc)), "c": {"N": cfg["N"]}, "ev": []}
    e = effective(cfg)
    c = dict(N=cfg["N"], on=cfg["on"], od=cfg["od"], bn=e["bn"], bd=e["bd"], Lmin=e["Lmin"], Jdes=cfg["Jdes"],
             Kdes=cfg["Kdes"], sched="count", qc=0, qrho=0, logsp=0)
    return {"meta": dict(cfg), "c": c, "ev": [{"t": "count", "a": int(a), "b": int(b)}]}


# --------------------------------------------------------------------------- configurations
OLAPS = [(0, 1), (1, 4), (1, 2), (3, 4), (7, 8), (31, 32)]
BMINS = [(1, 1), (3, 2), (2, 1), (7, 2), (12, 1)]
JDES = [1, 2, 3, 10, 50, 500]
KDES = [1, 2, 5, 40, 100]


def lmins(N):
    return sorted({1, 2, 5, N // 2, (9 * N) // 10, N - 1, N} & set(range(1, N + 1)))


def admissible(cfg):
    return cfg["N"] >= 8 and 1 <= cfg["bn"] / cfg["bd"] < cfg["N"] / 2 and 1 <= cfg["Lmin"] <= cfg["N"] \
        and 0 <= cfg["on"] / cfg["od"] < 1


def grid_configs(tier: str, seed: int, scheds=("lpsd", "ltf", "vectorized", "new")):
    rnd = random.Random(7919 + seed)
    out = []
    small = list(range(8, 65))
    big = [100, 257, 1000, 4096]
    n_small = 5000 if tier == "quick" else 30000
    n_big = 600 if tier == "quick" else 3000
    n_rand = 1500 if tier == "quick" else 12000

    def mk(N, on, od, bn, bd, Lmin, J, Kd, s):
        fs = rnd.choice([float(N), 1.0, 0.75 * N, 2.0, 1000.0, 0.1, 1e-7, 3e8])
        return dict(N=N, fs=fs, on=on, od=od, bn=bn, bd=bd, Lmin=Lmin, Jdes=J, Kdes=Kd, sched=s)
    for _ in range(n_small):
        N = rnd.choice(small)
        on, od = rnd.choice(OLAPS)
        bn, bd = rnd.choice(BMINS)
        out.append(mk(N, on, od, bn, bd, rnd.choice(lmins(N)), rnd.choice(JDES), rnd.choice(KDES), rnd.choice(scheds)))
    for _ in range(n_big):
        N = rnd.choice(big)
        on, od = rnd.choice(OLAPS)
        bn, bd = rnd.choice(BMINS)
        out.append(mk(N, on, od, bn, bd, rnd.choice(lmins(N) + [16, 64]), rnd.choice(JDES + [100, 1000]),
                      rnd.choice(KDES), rnd.choice(scheds)))
    for _ in range(n_rand):
        N = rnd.choice(small + big + [rnd.randint(8, 600)])
        od = rnd.randint(1, 64)
        on = rnd.randint(0, od - 1)
        bd = rnd.choice([1, 2, 3, 4, 10])
        bn = rnd.randint(bd, max(bd, min((20 if rnd.random() < 0.3 else 8) * bd, (N * bd) // 2 - 1)))
        out.append(mk(N, on, od, bn, bd, rnd.randint(1, N), rnd.choice([1, 2, 3, 5, 7, 20, 100, 300]),
                      rnd.randint(1, 120), rnd.choice(scheds)))
    # exact ties of the segment count: (N-L)/(xov L) + 1 = k + 1/2 with L = Lmin, so that every bin above the floor sits on the tie
    # (K = 1 must still mean L = N whichever way the tie is rounded)
    ties = []
    for _ in range(240 if tier == "quick" else 2000):
        od = rnd.choice([20, 100, 50, 25, 10, 3, 7, 64, 33])
        on = rnd.randint(0, od - 1)
        m = rnd.randint(1, 40)
        k = rnd.choice([1, 1, 1, 2, 3])
        L = 2 * od * m
        N = L + (2 * k - 1) * (od - on) * m
        if N > 60000:
            continue
        ties.append(mk(N, on, od, 1, 1, L, rnd.choice([5, 20, 100]), rnd.choice([1, 2, 5, 50]), rnd.choice(scheds)))
    out += ties
    # the same configuration after a call that differed in one parameter only (history independence), and very fine grids
    base = [c for c in out if admissible(c) and c["N"] >= 100][:24 if tier == "quick" else 200]
    for k, c in enumerate(base):
        bn2 = max(c["bd"], (c["bn"] * (1 + k % 3)) // 2) if k % 2 else c["bd"]
        pre = [dict(bn=bn2), dict(Lmin=max(1, c["Lmin"] // 2)), dict(Kdes=c["Kdes"] + 3), dict(on=0, od=1), dict(Jdes=c["Jdes"] + 1)][k % 5]
        out.append(dict(c, pre=[pre], sched=("lpsd", "ltf", "vectorized", "new")[k % 4] if len(scheds) == 4 else c["sched"]))
        # every bmin against a smaller and a larger one
        if k % 4 == 2:
            out.append(dict(c, bn=8, bd=1, pre=[dict(bn=1, bd=1)], sched="vectorized" if "vectorized" in scheds else c["sched"]))
            out.append(dict(c, bn=3, bd=2, pre=[dict(bn=12, bd=1)], sched="vectorized" if "vectorized" in scheds else c["sched"]))
    for k, J in enumerate([5001, 6000, 20000] if tier == "quick" else [5001, 5002, 6000, 9999, 20000, 100000]):
        for s_ in scheds:
            if s_ != "new":
                out.append(dict(N=[4096, 1000, 20000][k % 3], fs=[1.0, 1000.0, 2.0][k % 3], on=1, od=2, bn=1, bd=1, Lmin=1, Jdes=J, Kdes=[5, 1, 20][k % 3], sched=s_))
    # very long records with short segments: bins with 1e5 and more segments (SchedTrace.tla HBin)
    for k, s in enumerate(x for x in ("ltf", "lpsd", "vectorized", "ltf", "new") if x in scheds):
        if tier == "quick" and k >= 4:
            break
        N = [500000, 400000, 300000, 524287, 300000][k]
        on, od = [(3, 4), (3, 4), (1, 2), (9, 10), (1, 2)][k]
        out.append(dict(N=N, fs=[1.0, 10.0, 2.0, 1.0, 1.0][k], on=on, od=od, bn=1, bd=1, Lmin=1, Jdes=[100, 60, 100, 40, 30][k], Kdes=[100, 20, 50, 10, 10][k], sched=s))
    return [c for c in out if admissible(c)]


# --------------------------------------------------------------------------- Sched.tla replay
def lcm_upto(n):
    v = 1
    for i in range(2, n + 1):
        v = v * i // math.gcd(v, i)
    return v


def model_constants(tier: str):
    from .tlc import Raw
    nmax = 12 if tier == "quick" else 14
    fden = lcm_upto(nmax) * 2
    return {
        "SNs": Raw(f"8..{nmax}"),
        "Olaps": Raw("{<<0,1>>,<<1,4>>,<<1,2>>,<<3,4>>,<<7,8>>,<<31,32>>}"),
        "Bmins": Raw("{<<1,1>>,<<3,2>>,<<2,1>>,<<7,2>>}"),
        "LminsOf(n)": Raw("{1, 2, 5, n \\div 2, (9 * n) \\div 10, n - 1, n}"),
        "Jdess": Raw("{0,1,2,3}"),
        "Kdess": Raw("{1,2,5,40}"),
        "Cs": Raw(f"{{<<n-2,2>> : n \\in 8..{nmax}}} \\cup {{<<1,1>>,<<2,1>>,<<1,2>>,<<1,3>>,<<1,5>>}}"),
        "FDen": fden, "CapK": True, "EmitPlans": True,
    }


SCHED_INVARIANTS = ["TypeOK", "GridStartsAtBmin", "GridStepsByRes", "GridBelowNyquist", "GridIncreasing",
                    "BinNumberFloor", "AtLeastOneBin", "LengthBounds", "SingleUsesRecord", "LengthNonIncreasing",
                    "PlacedOk", "AveragesNonDecreasing", "LogSpaced", "EmitPlan"]


def cfg_key(pj):
    c = pj["cfg"]
    return (c["N"], tuple(c["olap"]), tuple(c["bmin"]), c["Lmin"], c["Jdes"], c["Kdes"], tuple(c["c"]))


def replay_group(item):
    """Runs in a worker.  item = (key, [variants]).  Returns list of (sched, field, detail)."""
    key, variants = item
    N, olap, bmin, Lmin, Jdes, Kdes, cc = key
    if Jdes == 0:                      # real-valued Jdes realising the model's rational log factor c < 1
        Jdes = math.log(N / 2.0) / math.log(1.0 + cc[0] / cc[1])
    fs = 0.75 * N
    out = []
    todo = [("ltf", dict(bn=bmin[0], bd=bmin[1], Lmin=Lmin))]
    if bmin[0] == bmin[1] and Lmin == 1:
        todo.append(("lpsd", dict(bn=1, bd=1, Lmin=1)))
    for sched, extra in todo:
        cfg = dict(N=N, fs=fs, on=olap[0], od=olap[1], Jdes=Jdes, Kdes=Kdes, sched=sched, **extra)
        try:
            p = call_scheduler(cfg)
        except BaseException as exc:
            out.append((sched, "raises", repr(exc)))
            continue
        got = dict(L=[int(v) for v in p["L"]], K=[int(v) for v in p["K"]], navg=[int(v) for v in p["navg"]],
                   f=[float(v) for v in p["f"]])
        best = None
        for v in variants:
            field = None
            if len(v["L"]) != len(got["L"]):
                field = "nf"
            else:
                for name in ("L", "K", "navg"):
                    if v[name] != got[name]:
                        field = name
                        break
                if field is None:
                    fd = v["fden"]
                    for a, b in zip(v["f"], got["f"]):
                        ex = a / fd * fs / N
                        if abs(ex - b) > 1e-9 * max(1.0, abs(ex)):
                            field = "f"
                            break
            if field is None:
                best = None
                break
            best = best or (field, v)
        else:
            field, v = best
            out.append((sched, field, {"got": got, "model_variant": {k: v[k] for k in ("L", "K", "navg", "f", "fden")},
                                       "variants": len(variants)}))
    return out
