"""Replay of Analyzer.tla scenarios into the real SpectrumAnalyzer, and lattice traces."""
from __future__ import annotations

import math

import numpy as np

from . import kernelcases as kc, traces

ANALYZER_INVARIANTS = ["CallsUseOwnBin", "OutIsReference", "BandIsSubsequence", "WindowSums", "CacheOnlyPlanLengths", "Emit"]
ASYM = [1, 3, 2, 5, 4, 2, 3, 1]


def window(win_id, L):
    if win_id == "rect":
        return np.ones(L)
    if win_id == "ramp":
        return np.arange(1, L + 1, dtype=float)
    return np.array(ASYM[:L], dtype=float)


def rat(p):
    return p[0] / p[1]


def make_plan(bins, fs=1.0):
    f = np.array([rat(b["f"]) * fs for b in bins])
    L = np.array([b["L"] for b in bins], dtype=np.int64)
    K = np.array([len(b["D"]) for b in bins], dtype=np.int64)
    return {"f": f, "r": fs / L, "b": f * L / fs, "m": f * L / fs, "L": L, "K": K, "navg": K.copy(),
            "D": [np.array(b["D"], dtype=np.int64) for b in bins], "O": np.zeros(len(bins)), "nf": len(bins)}


def analyzer_for(case, backend):
    import speckit
    win_id = case["win"]

    def sched(**kw):
        return make_plan(case["bins"])

    def win(L):
        return window(win_id, int(L))
    data = np.array(case["x"], dtype=float) if case["mode"] == "auto" else np.array([case["x"], case["y"]], dtype=float)
    band = None if not case["band"] else (rat(case["band"][0]), rat(case["band"][1]))
    return speckit.SpectrumAnalyzer(data, 1.0, scheduler=sched, win=win, order=case["order"], band=band, backend=backend, olap=0.5)


def expected_bin(out, c2):
    st = out["stats"]
    fake = {"exp": st, "scale": out["scale"], "c2": c2}
    return kc.expected(fake)


def replay_scenario(case):
    """Returns list of (backend, field, bin, got, expected)."""
    probs = []
    for backend in ("numba", "numpy"):
        try:
            a = analyzer_for(case, backend)
            r = a.compute()
        except ValueError as exc:
            if not case["error"]:
                probs.append((backend, "raises", -1, f"ValueError: {exc}"[:120], "a result"))
            continue
        except Exception as exc:
            probs.append((backend, "raises", -1, f"{type(exc).__name__}: {exc}"[:120], "ValueError" if case["error"] else "a result"))
            continue
        if case["error"]:
            probs.append((backend, "no_error", -1, "a result", "ValueError (empty or invalid band / plan)"))
            continue
        kept = case["keptbins"]
        if r.nf != len(kept):
            probs.append((backend, "nf", -1, r.nf, len(kept)))
            continue
        for q, (kb, out) in enumerate(zip(kept, case["out"])):
            exp = expected_bin(out, kb["c2"])
            tol = kc.tolerances(exp)
            got = (float(r.XX[q]), float(r.YY[q]), float(r.XY[q].real), float(r.XY[q].imag), float(r.M2[q]))
            if case["mode"] == "auto":
                pass
            bad = kc.compare(got, exp, tol)
            for fld in bad:
                probs.append((backend, fld, q, got[kc.FIELDS.index(fld)], exp[fld]))
            checks = [("S12", float(r.S12[q]), float(out["S1"]) ** 2), ("S2", float(r.S2[q]), float(out["S2"])),
                      ("L", int(r.L[q]), kb["L"]), ("K", int(r.K[q]), len(kb["D"])), ("navg", int(r.navg[q]), len(kb["D"])),
                      ("f", float(r.f[q]), {2: 0.0, 1: 1 / 6, 0: 0.25, -1: 1 / 3, -2: 0.5}[kb["c2"]]),
                      ("r", float(r.r[q]), 1.0 / kb["L"]),
                      ("D", [int(v) for v in r.D[q]], list(kb["D"]))]
            for nm, g, e in checks:
                if (g != e) if not isinstance(g, float) else abs(g - e) > 1e-12 * max(1.0, abs(e)):
                    probs.append((backend, nm, q, g, e))
    return probs


# --------------------------------------------------------------------------- lattice traces (code -> spec)
def record_lattice(spec):
    """Full / band / single-bin analyses of an integer record; the trace reports what the code reports."""
    import speckit
    rng = np.random.default_rng(spec["seed"])
    N = spec["N"]
    x = rng.integers(-2, 3, size=N)
    y = rng.integers(-2, 3, size=N)
    win_id, order, mode = spec["win"], spec["order"], spec["mode"]
    data = x.astype(float) if mode == "auto" else np.array([x, y], dtype=float)
    ev = []
    olap = spec["olap"]

    def win(L):
        return window(win_id, int(L))
    a = speckit.SpectrumAnalyzer(data, 1.0, win=win, order=order, olap=olap, backend=spec["backend"], scheduler=spec["sched"],
                                 Jdes=spec["Jdes"], Kdes=spec["Kdes"], Lmin=1)
    sw = {2: 0.0, 1: math.sqrt(3) / 2, 0: 1.0, -1: math.sqrt(3) / 2, -2: 0.0}

    def event(kind, r, q, c2, mirror=False):
        D = [int(v) for v in r.D[q]]
        s = sw[c2]
        mi = float(r.XY[q].imag) / s if s else 0.0
        if mirror:
            mi = -mi            # a request at fs - f (beyond Nyquist, allowed with a warning): exp(-i w n) at w = 2 pi - w0 is the conjugate phasor
        m2 = float(r.M2[q])
        m2scale = 65536 if m2 < 1.6e4 else (256 if m2 < 4e6 else 1)      # q saturates at 2^30
        return {"kind": kind, "L": int(r.L[q]), "D": D, "c2": c2, "K": int(r.K[q]), "navg": int(r.navg[q]), "m2scale": m2scale,
                "S12": int(round(float(r.S12[q]))), "S2": int(round(float(r.S2[q]))),
                "q": [traces.q(float(r.XX[q]), 65536), traces.q(float(r.YY[q]), 65536), traces.q(float(r.XY[q].real), 65536),
                      traces.q(mi, 65536), traces.q(min(m2, 2e9), m2scale)]}
    freqs = {2: 0.0, 1: 1 / 6, 0: 0.25, -1: 1 / 3, -2: 0.5}
    for (c2, L) in spec["singles"]:
        if L > N:
            continue
        r = a.compute_single_bin(freqs[c2], L=L)
        ev.append(event("single", r, 0, c2))
    for (c2, L) in spec["singles"][:2]:
        if L <= N and c2 in (1, 0, -1):
            r = a.compute_single_bin(1.0 - freqs[c2], L=L)
            ev.append(event("single", r, 0, c2, mirror=True))
    for k, (c2, fresL) in enumerate(spec["singles_fres"]):
        # fs/fres need not be an integer: the reported f stays the requested frequency, L = round(fs/fres)
        r = a.compute_single_bin(freqs[c2], fres=1.0 / (fresL + (0.4 if k % 2 else 0.0)))
        ev.append(event("single", r, 0, c2))
    return {"meta": dict(spec), "c": {"x": [int(v) for v in x], "y": [int(v) for v in y], "win": win_id, "order": order,
                                       "mode": mode, "N": N}, "ev": ev}


def record_band(spec):
    """Band-restricted vs unrestricted analyses of a real record, with and without a forced bin count."""
    import speckit
    from speckit import schedulers
    rng = np.random.default_rng(spec["seed"])
    N = spec["N"]
    x = rng.standard_normal(N)
    y = 0.4 * x + rng.standard_normal(N)
    data = x if spec["mode"] == "auto" else np.vstack([x, y])
    fs = 2.0
    ev = []
    for force in (False, True):
        kw = dict(scheduler=spec["sched"], order=spec["order"], backend=spec["backend"], olap=0.5, Kdes=spec["Kdes"], Lmin=spec["Lmin"])
        if force:
            fn = {"ltf": schedulers.ltf_plan, "lpsd": schedulers.lpsd_plan, "vectorized_ltf": schedulers.vectorized_ltf_plan}[spec["sched"]]
            target = int(fn(N=N, fs=fs, olap=0.5, bmin=1.0, Lmin=spec["Lmin"], Jdes=160, Kdes=spec["Kdes"])["nf"])
            kw.update(Jdes=target, force_target_nf=True)
        else:
            kw.update(Jdes=spec["Jdes"])
        full = speckit.compute_spectrum(data, fs, **kw)
        f = np.asarray(full.f)
        for (lo, hi) in spec["bands"]:
            lo_, hi_ = (float(f[lo]), float(f[hi])) if isinstance(lo, int) else (lo, hi)     # index pairs: edges exactly on plan frequencies
            m = (f >= lo_) & (f <= hi_)
            raised, nb, same = 0, 0, 0
            try:
                r = speckit.compute_spectrum(data, fs, band=(lo_, hi_), **kw)
                nb = int(r.nf)
                if nb == int(m.sum()):
                    same = 1
                    for k in ("f", "r", "b", "L", "K", "navg", "O", "XX", "YY", "XY", "S12", "S2", "M2"):
                        if np.asarray(getattr(r, k)).tobytes() != np.asarray(getattr(full, k))[m].tobytes():
                            same = 0
                    if not all(np.array_equal(a, b) for a, b in zip(r.D, [d for d, keep in zip(full.D, m) if keep])):
                        same = 0
            except ValueError:
                raised = 1
            ev.append({"nb": nb, "ni": int(m.sum()), "same": same, "raised": raised, "force": int(force)})
    return {"meta": dict(spec), "c": {}, "ev": ev}
