"""Run TLC on the specifications under /verif/spec and parse what it says.

Every model run goes through `run_model`: the caller names a module of /verif/spec, gives the
constants as TLA+ expressions, the invariants / properties to check and (optionally) environment
variables read by the spec through IOEnv.  A wrapper module `MC_<tag>.tla` that EXTENDS the
module and a matching .cfg are generated into the work directory (TLC's cfg syntax cannot
express negative numbers or records, so constants are always substituted by definitions).
"""
from __future__ import annotations

import json
import os
import re
import shutil
import subprocess
import time
from dataclasses import dataclass, field
from pathlib import Path

VERIF = Path(__file__).resolve().parent.parent
SPEC_DIR = VERIF / "spec"
WORK = Path(os.environ.get("VERIF_WORK_DIR", VERIF / "work"))
JAR = "/opt/veriftools/tla/tla2tools.jar"
DEPS = "/opt/veriftools/tla/CommunityModules-deps.jar"


class TLCError(RuntimeError):
    """TLC itself failed (parse error, overflow, evaluation error): machinery failure, exit 2."""


@dataclass
class TLCResult:
    ok: bool                    # no invariant / property violation and no error
    states: int = 0             # states generated
    distinct: int = 0           # distinct states found
    depth: int = 0
    wall_s: float = 0.0
    violated: list = field(default_factory=list)     # names of violated invariants/properties
    prints: list = field(default_factory=list)       # raw PrintT payloads (strings)
    error: str | None = None
    coverage: dict = field(default_factory=dict)     # action name -> (distinct, total)
    cmd: str = ""
    out_path: str = ""
    trace_text: str = ""        # counterexample text when an invariant was violated

    def json_prints(self):
        out = []
        for p in self.prints:
            if p.startswith('"') and p.endswith('"'):
                try:
                    s = json.loads(p)          # TLC prints strings quoted & escaped like JSON
                except Exception:
                    s = p[1:-1].replace('\\"', '"').replace("\\\\", "\\")
                if s and s[0] in "{[":
                    try:
                        out.append(json.loads(s))
                    except Exception:
                        pass
        return out

    def tuple_prints(self):
        """PrintT(<<"TAG", 1, 2, "x">>) lines parsed into python lists."""
        out = []
        for p in self.prints:
            if p.startswith("<<") and p.endswith(">>"):
                out.append(parse_tla_value(p))
        return out


_tok = re.compile(r'\s*(<<|>>|\{|\}|\[|\]|,|\|->|"(?:[^"\\]|\\.)*"|-?\d+|TRUE|FALSE|[A-Za-z_][A-Za-z0-9_]*|:>|@@|\(|\))')


def parse_tla_value(text: str):
    """Parse a printed TLA+ value (tuples, sets, records, functions as :> @@, ints, strings, bools)."""
    toks = _tok.findall(text)
    pos = 0

    def peek():
        return toks[pos] if pos < len(toks) else None

    def eat(t=None):
        nonlocal pos
        tok = toks[pos]
        if t is not None and tok != t:
            raise ValueError(f"expected {t} got {tok} in {text[:200]}")
        pos += 1
        return tok

    def atom():
        t = peek()
        if t == "<<":
            eat()
            items = []
            while peek() != ">>":
                items.append(expr())
                if peek() == ",":
                    eat()
            eat(">>")
            return items
        if t == "{":
            eat()
            items = []
            while peek() != "}":
                items.append(expr())
                if peek() == ",":
                    eat()
            eat("}")
            return {"__set__": items}
        if t == "[":
            eat()
            rec = {}
            while peek() != "]":
                key = eat()
                eat("|->")
                rec[key] = expr()
                if peek() == ",":
                    eat()
            eat("]")
            return rec
        if t == "(":
            eat()
            e = expr()
            eat(")")
            return e
        eat()
        if t == "TRUE":
            return True
        if t == "FALSE":
            return False
        if t.startswith('"'):
            return json.loads(t)
        if re.fullmatch(r"-?\d+", t):
            return int(t)
        return t

    def expr():
        left = atom()
        if peek() == ":>":
            d = {}
            eat()
            d[_k(left)] = atom()
            while peek() == "@@":
                eat()
                kk = atom()
                eat(":>")
                d[_k(kk)] = atom()
            return d
        return left

    def _k(x):
        return x if isinstance(x, (int, str)) else json.dumps(x)

    return expr()


def tla(v) -> str:
    """Python value -> TLA+ expression."""
    if isinstance(v, bool):
        return "TRUE" if v else "FALSE"
    if isinstance(v, int):
        return str(v)
    if isinstance(v, str):
        return json.dumps(v)
    if isinstance(v, (list, tuple)):
        return "<<" + ", ".join(tla(e) for e in v) + ">>"
    if isinstance(v, (set, frozenset)):
        return "{" + ", ".join(tla(e) for e in sorted(v, key=repr)) + "}"
    if isinstance(v, dict):
        return "[" + ", ".join(f"{k} |-> {tla(e)}" for k, e in v.items()) + "]"
    raise TypeError(f"cannot render {type(v)} as TLA+")


class Raw(str):
    """A string that is already a TLA+ expression."""


def _expr(v):
    return str(v) if isinstance(v, Raw) else tla(v)


_counter = 0


def run_model(module: str, tag: str, *, constants: dict | None = None, invariants=(), properties=(),
              spec: str = "Spec", init: str | None = None, next_: str | None = None,
              constraint: str | None = None, action_constraint: str | None = None,
              postcondition: str | None = None, view: str | None = None,
              env: dict | None = None, workers: int | str = "auto", timeout: int = 3600,
              simulate: str | None = None, depth: int | None = None, seed: int | None = None,
              coverage: bool = False, deadlock: bool = False, extra_defs: str = "",
              extends: tuple = (), dfs: bool = False, heap: str = "12g", dump: str | None = None,
              workdir: Path | None = None, keep_out: bool = True) -> TLCResult:
    """Generate MC_<tag>.tla/.cfg and run TLC.  Raises TLCError on machinery failure."""
    global _counter
    _counter += 1
    wd = Path(workdir) if workdir else WORK / "tlc" / tag
    if wd.exists():
        shutil.rmtree(wd, ignore_errors=True)
    wd.mkdir(parents=True, exist_ok=True)
    mc = f"MC_{re.sub(r'[^A-Za-z0-9_]', '_', tag)}"
    constants = constants or {}
    lines = [f"---- MODULE {mc} ----", f"EXTENDS {', '.join((module,) + tuple(extends))}"]
    cfg = []
    if init and next_:
        cfg.append(f"INIT {init}")
        cfg.append(f"NEXT {next_}")
    else:
        cfg.append(f"SPECIFICATION {spec}")
    if constants:
        cfg.append("CONSTANTS")
    for name, val in constants.items():
        if "(" in name:                      # operator constant, e.g. "LminsOf(n)"
            base = name[:name.index("(")]
            lines.append(f"const_{name} == {_expr(val)}")
            cfg.append(f"  {base} <- const_{base}")
        else:
            lines.append(f"const_{name} == {_expr(val)}")
            cfg.append(f"  {name} <- const_{name}")
    if extra_defs:
        lines.append(extra_defs)
    lines.append("====")
    for inv in invariants:
        cfg.append(f"INVARIANT {inv}")
    for p in properties:
        cfg.append(f"PROPERTY {p}")
    if constraint:
        cfg.append(f"CONSTRAINT {constraint}")
    if action_constraint:
        cfg.append(f"ACTION_CONSTRAINT {action_constraint}")
    if postcondition:
        cfg.append(f"POSTCONDITION {postcondition}")
    if view:
        cfg.append(f"VIEW {view}")
    cfg.append(f"CHECK_DEADLOCK {'TRUE' if deadlock else 'FALSE'}")
    (wd / f"{mc}.tla").write_text("\n".join(lines) + "\n")
    (wd / f"{mc}.cfg").write_text("\n".join(cfg) + "\n")

    nworkers = os.cpu_count() or 4 if workers == "auto" else int(workers)
    jopts = ["-XX:+UseParallelGC", f"-Xmx{heap}", f"-DTLA-Library={SPEC_DIR}"]
    if dfs:
        jopts.append("-Dtlc2.tool.queue.IStateQueue=StateDeque")
    cmd = ["java", *jopts, "-cp", f"{JAR}:{DEPS}", "tlc2.TLC",
           "-workers", str(nworkers), "-metadir", str(wd / "meta"), "-noGenerateSpecTE",
           "-config", f"{mc}.cfg"]
    if simulate is not None:
        cmd += ["-simulate", simulate]
    if depth is not None:
        cmd += ["-depth", str(depth)]
    if seed is not None:
        cmd += ["-seed", str(seed)]
    if coverage:
        cmd += ["-coverage", "1"]
    if dump:
        cmd += ["-dump", dump]
    cmd.append(f"{mc}.tla")
    e = dict(os.environ)
    e.pop("JAVA_TOOL_OPTIONS", None)
    if env:
        e.update({k: str(v) for k, v in env.items()})
    out_path = wd / "tlc.out"
    t0 = time.time()
    with open(out_path, "w") as fh:
        try:
            proc = subprocess.run(cmd, cwd=wd, env=e, stdout=fh, stderr=subprocess.STDOUT, timeout=timeout)
            rc = proc.returncode
        except subprocess.TimeoutExpired:
            subprocess.run(["pkill", "-f", str(wd / "meta")], check=False)
            raise TLCError(f"TLC timed out after {timeout}s: {tag}")
    wall = time.time() - t0
    res = parse_output(out_path)
    res.wall_s = wall
    res.cmd = " ".join(cmd)
    res.out_path = str(out_path)
    shutil.rmtree(wd / "meta", ignore_errors=True)
    if res.error:
        raise TLCError(f"TLC error in {tag}: {res.error}\n(see {out_path})")
    if rc not in (0, 12, 13) and not res.violated:
        raise TLCError(f"TLC exit code {rc} in {tag} (see {out_path})")
    return res


_re_states = re.compile(r"(\d+) states generated, (\d+) distinct states found")
_re_inv = re.compile(r"Error: Invariant (\S+) is violated")
_re_prop = re.compile(r"Error: (?:Action property|Temporal properties?) (\S+)?")
_re_depth = re.compile(r"The depth of the complete state graph search is (\d+)")
_re_cov = re.compile(r"^<(\w+) line .*?>: (\d+):(\d+)")


def parse_output(path) -> TLCResult:
    res = TLCResult(ok=True)
    err_lines = []
    in_err = False
    pending = None
    trace = []
    in_trace = False
    with open(path, errors="replace") as fh:
        for raw in fh:
            line = raw.rstrip("\n")
            if in_trace:
                trace.append(line)
            m = _re_states.search(line)
            if m:
                res.states, res.distinct = int(m.group(1)), int(m.group(2))
                continue
            m = _re_depth.search(line)
            if m:
                res.depth = int(m.group(1))
                continue
            m = _re_inv.search(line)
            if m:
                res.violated.append(m.group(1))
                res.ok = False
                in_trace = True
                continue
            if line.startswith("Error: Action property") or line.startswith("Error: Temporal propert"):
                res.violated.append(line[7:].strip())
                res.ok = False
                in_trace = True
                continue
            if line.startswith("Error: The behavior up to this point") or line.startswith("Error: The following behavior"):
                in_trace = True
                continue
            if line.startswith("Error:"):
                in_err = True
                err_lines.append(line)
                continue
            if in_err:
                if line.strip() == "" or line.startswith("Finished") or len(err_lines) > 25:
                    in_err = False
                else:
                    err_lines.append(line)
                continue
            m = _re_cov.match(line)
            if m:
                res.coverage[m.group(1)] = (int(m.group(2)), int(m.group(3)))
                continue
            s = line.strip()
            if pending is not None:
                # TLC pretty-prints values wider than 80 columns over several lines: join until the brackets balance
                pending += " " + s
                if pending.count("<<") <= pending.count(">>") or len(pending) > 100000:
                    res.prints.append(pending)
                    pending = None
                continue
            if s.startswith("<<") and s.count("<<") > s.count(">>"):
                pending = s
                continue
            if s.startswith('"') or s.startswith("<<"):
                res.prints.append(s)
    if err_lines:
        txt = "\n".join(err_lines)
        # "Error: The behavior..." is handled above; deadlock etc. count as errors.
        res.error = txt
        res.ok = False
    res.trace_text = "\n".join(trace[:400])
    return res


def sany(module_path: str) -> None:
    cmd = ["java", f"-DTLA-Library={SPEC_DIR}", "-cp", f"{JAR}:{DEPS}", "tla2sany.SANY", module_path]
    p = subprocess.run(cmd, capture_output=True, text=True, cwd=SPEC_DIR)
    if p.returncode != 0 or "error" in p.stdout.lower().replace("errors: 0", ""):
        raise TLCError(f"SANY failed for {module_path}:\n{p.stdout[-2000:]}")


def run_apalache(module_path: str, inv: str, tag: str, length: int = 0, timeout: int = 900):
    """apalache-mc check --length=<n> --inv=<inv>.  Returns ("ok" | "violated", wall seconds)."""
    wd = WORK / "apalache" / tag
    shutil.rmtree(wd, ignore_errors=True)
    wd.mkdir(parents=True, exist_ok=True)
    src = Path(module_path)
    shutil.copy(src, wd / src.name)
    t0 = time.time()
    try:
        p = subprocess.run(["apalache-mc", "check", f"--length={length}", f"--inv={inv}", f"--out-dir={wd / 'out'}", src.name],
                           cwd=wd, capture_output=True, text=True, timeout=timeout)
    except subprocess.TimeoutExpired:
        raise TLCError(f"apalache timed out on {src.name}")
    (wd / "apalache.out").write_text(p.stdout + p.stderr)
    wall = time.time() - t0
    if "The outcome is: NoError" in p.stdout:
        return "ok", wall
    if "The outcome is: Error" in p.stdout and "violated" in p.stdout:
        return "violated", wall
    raise TLCError(f"apalache failed on {src.name} (see {wd / 'apalache.out'})")
