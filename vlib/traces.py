"""Batched trace validation: thousands of recorded traces checked by one TLC run.

The trace specification picks `tid` in Init, consumes one event per step, wraps every asserted
clause in Check(name, c) (prints <<"FAIL", tid, l, name>> and disables the step) and prints
<<"OK", tid>> when the whole trace has been consumed.  Verdicts are total: a trace with neither
line is a machinery failure.
"""
from __future__ import annotations

import json
import os
import re
from pathlib import Path

from . import tlc

MAXINT = 2 ** 31 - 1


def check_ints(obj, path="$"):
    """TLC integers are 32 bit and JsonDeserialize mangles anything larger: refuse early."""
    if isinstance(obj, bool):
        return
    if isinstance(obj, int):
        if not -MAXINT <= obj <= MAXINT:
            raise tlc.TLCError(f"trace integer out of 32-bit range at {path}: {obj}")
    elif isinstance(obj, float):
        raise tlc.TLCError(f"float in trace at {path}: {obj!r} (quantise first)")
    elif isinstance(obj, dict):
        for k, v in obj.items():
            check_ints(v, f"{path}.{k}")
    elif isinstance(obj, (list, tuple)):
        for i, v in enumerate(obj):
            check_ints(v, f"{path}[{i}]")


def validate(module: str, tag: str, traces: list, *, constants=None, workers="auto", timeout=3600,
             extra_env=None, invariants=("Done",), extra_defs: str = "", spec: str = "Spec", max_events_per_run: int = 400000):
    """Returns (verdicts, tlc_result); verdicts[i] is [] (accepted) or a list of (event, clause).

    Large batches are split over several TLC runs (JSON deserialisation of hundreds of MB in one run is slow);
    the returned result carries the summed state counts."""
    if not traces:
        raise tlc.TLCError(f"no traces recorded for {tag}")
    chunks, cur, n = [], [], 0
    for t in traces:
        cur.append(t)
        n += len(t["ev"]) + 1
        if n >= max_events_per_run:
            chunks.append(cur)
            cur, n = [], 0
    if cur:
        chunks.append(cur)
    verdicts, total = [], None
    for k, ch in enumerate(chunks):
        vd, res = _validate_one(module, tag if len(chunks) == 1 else f"{tag}_{k}", ch, constants=constants, workers=workers, timeout=timeout,
                                extra_env=extra_env, invariants=invariants, extra_defs=extra_defs, spec=spec)
        verdicts += vd
        if total is None:
            total = res
        else:
            total.states += res.states
            total.distinct += res.distinct
            total.wall_s += res.wall_s
            total.depth = max(total.depth, res.depth)
    return verdicts, total


def _validate_one(module, tag, traces, *, constants, workers, timeout, extra_env, invariants, extra_defs, spec):
    # only the per-trace integer constants "c" and the events "ev" go to TLC; "meta" stays with the driver
    sent = [{"c": t.get("c", {}), "ev": t["ev"]} for t in traces]
    check_ints(sent)
    wd = tlc.WORK / "traces"
    wd.mkdir(parents=True, exist_ok=True)
    path = wd / f"{tag}.json"
    path.write_text(json.dumps(sent))
    env = {"TRACE_FILE": str(path)}
    if extra_env:
        env.update(extra_env)
    # An observation so far out of range that a clause's arithmetic leaves 32 bits (only possible for grossly wrong
    # values: the recorders normalise every field) rejects that trace; it is removed and the rest is validated again.
    overflowed = {}
    sent_all = sent
    alive = list(range(len(sent_all)))
    for _attempt in range(25):
        try:
            res = tlc.run_model(module, tag, constants=constants, invariants=list(invariants), env=env,
                                workers=workers, timeout=timeout, extra_defs=extra_defs, spec=spec)
            break
        except tlc.TLCError as exc:
            msg = str(exc)
            m_see = re.search(r"\(see ([^)]+)\)", msg)
            if m_see and os.path.exists(m_see.group(1)):
                # workers' PrintT lines interleave with the error report: search everything after the first "Error:"
                full = open(m_see.group(1), errors="replace").read()
                k0 = full.find("Error:")
                if k0 >= 0:
                    msg = full[k0:]
            m_t = re.search(r"/\\ tid = (\d+)", msg)
            m_l = re.search(r"/\\ l = (\d+)", msg)
            if "Overflow" not in msg or not m_t:
                raise
            k = int(m_t.group(1)) - 1
            overflowed[alive[k]] = int(m_l.group(1)) if m_l else 1
            del alive[k]
            if not alive:
                res = None
                break
            path.write_text(json.dumps([sent_all[i] for i in alive]))
    else:
        raise tlc.TLCError(f"more than 25 traces of {tag} overflow 32-bit arithmetic")
    if res is None:
        return [[(overflowed[i], "ANY:observation_out_of_32bit_range")] for i in range(len(sent_all))], tlc.TLCResult(ok=True)
    if res.violated:
        raise tlc.TLCError(f"trace spec {module} reported an invariant violation {res.violated} (see {res.out_path})")
    ok = set()
    fails = {}
    for t in res.tuple_prints():
        if not t:
            continue
        if t[0] == "OK":
            ok.add(int(t[1]))
        elif t[0] == "FAIL":
            fails.setdefault(int(t[1]), []).append((int(t[2]), str(t[3])))
    by_alive = {}
    for pos in range(1, len(alive) + 1):
        if pos in fails:
            by_alive[alive[pos - 1]] = sorted(set(fails[pos]))
        elif pos in ok:
            by_alive[alive[pos - 1]] = []
        else:
            raise tlc.TLCError(f"trace {pos} of {tag} has neither OK nor FAIL (see {res.out_path})")
    verdicts = []
    for i in range(len(sent_all)):
        if i in overflowed:
            verdicts.append([(overflowed[i], "ANY:observation_out_of_32bit_range")])
        else:
            verdicts.append(by_alive[i])
    return verdicts, res


def belongs(clause: str, pid: str) -> bool:
    """Clause names carry the property id; an out-of-range observation belongs to whichever property is being checked."""
    return clause.startswith(pid + ":") or clause.startswith("ANY:")


SAT = 2 ** 30


def q(v: float, scale: float = 2 ** 20) -> int:
    """Quantise a float to the Q-format integer round(v*scale).

    Values that do not fit (or are not finite) saturate at +-2^30: on a correct tree the recorders'
    normalisations keep every observation far below that, so a saturated value can only make a clause
    fail (a grossly wrong observation must be a verdict, not a harness crash)."""
    import math
    if not math.isfinite(v):
        return SAT
    r = v * scale
    if r >= SAT:
        return SAT
    if r <= -SAT:
        return -SAT
    return int(round(r))
