"""Shared pieces of the SpectrumResult drivers (C06, C09, C10, C11, C14, C20)."""
from __future__ import annotations

import json

from .. import common, resultcases as rc, tlc


def grid_cases(tag, emit=True):
    res = tlc.run_model("Result", tag, constants=dict(Scope="grid", MaxHist=0, EmitCases=emit),
                        invariants=rc.RESULT_INVARIANTS, timeout=3600)
    if res.violated:
        raise tlc.TLCError(f"Result.tla (grid) violates its own invariant {res.violated}")
    return res, res.json_prints()


def hist_cases(tag, maxhist, simulate=None, depth=None, seed=None):
    # simulation: `num` is per worker and invariants (hence Emit) are evaluated on every candidate successor,
    # so a few dozen traces on one worker already yield hundreds of distinct full-length histories
    res = tlc.run_model("Result", tag, constants=dict(Scope="hist", MaxHist=maxhist, EmitCases=True),
                        invariants=rc.RESULT_INVARIANTS, timeout=3600, simulate=simulate, depth=depth, seed=seed,
                        workers=(1 if simulate else "auto"))
    if res.violated:
        raise tlc.TLCError(f"Result.tla (hist) violates its own invariant {res.violated}")
    js = res.json_prints()
    results = {j["rid"]: j["res"] for j in js if j.get("kind") == "res"}
    seen = set()
    hists = []
    for j in js:
        if j.get("kind") == "hist":
            key = (j["rid"], json.dumps(j["hist"], sort_keys=True))
            if key not in seen:
                seen.add(key)
                hists.append((j["rid"], j["hist"]))
    return res, results, hists


def _grid_worker(args):
    case, names = args
    return rc.replay_grid_case(case, names)


def replay_grid(V, pid, cases, names, label):
    out = common.pmap(_grid_worker, [(c, names) for c in cases], chunksize=64)
    for case, probs in zip(cases, out):
        b = case["bins"][0]
        V.case({"iscsd": case["iscsd"], "bin": b, "fs": case["fs"]}, True)
        for (name, j, got, exp) in probs:
            V.violation(f"{pid}|replay|{label}|{'csd' if case['iscsd'] else 'auto'}|{name}|{got.split(' ')[0]}",
                        {"kind": "result_grid", "case": {k: case[k] for k in ("iscsd", "fs", "bins")}, "name": name,
                         "expected_def": case["exp"].get(name), "got": got, "expected": exp,
                         "message": f"SpectrumResult.{name} on {'csd' if case['iscsd'] else 'auto'} result: {got}; {exp}"})


# --------------------------------------------------------------------------- recorded analyses (code -> spec)
import random as _random

from .. import resulttrace as _rt, traces as _traces

SCHEDS = ["ltf", "lpsd", "vectorized_ltf", "new_ltf"]
WINS = ["kaiser", "hann", "nuttall", "flattop"]


def _rec(spec):
    return _rt.record_analysis(spec)


def trace_specs(tier, seed, variants_of, n_quick=10, n_thorough=80, backends=("numba", "numpy"), extra=()):
    rnd = _random.Random(4242 + seed)
    specs = []
    n = n_quick if tier == "quick" else n_thorough
    for i in range(n):
        sch = SCHEDS[i % 4]
        specs.append(dict(seed=rnd.randrange(2 ** 31), N=rnd.choice([3000, 6000] if tier == "quick" else [3000, 8000, 20000]), fs=rnd.choice([1.0, 2.0, 250.0]),
                          data=rnd.choice(["delay_coupled", "filtered", "independent", "gain_noise", "offset", "offset"]), sched=sch, win=WINS[(i // 4) % 4],
                          order=rnd.choice([-1, 0, 1, 2]), backend=backends[i % len(backends)], Jdes=rnd.choice([30, 60]), Kdes=rnd.choice([5, 20]),
                          Lmin=1 if sch == "lpsd" else rnd.choice([1, 64]), psll=rnd.choice([60, 120, 200]), variants=variants_of(rnd)))
        if i % 5 == 3:            # slowly / fast sampled series (daily data, RF): every clause is stated in bins or relative to fs
            specs[-1]["fs"] = [1e-6, 2.5e-4, 1e6][(i // 5) % 3]
            if (i // 5) % 2 == 0:
                specs[-1].update(sched="vectorized_ltf", Lmin=rnd.choice([1, 64]))      # the default scheduler walks a lookup grid in Hz
            if any(v[0] == "relabel" for v in specs[-1]["variants"]):
                specs[-1]["variants"] = list(specs[-1]["variants"]) + [("relabelx", 1.0 / specs[-1]["fs"]), ("relabelx", 86400.0)]   # back to 1 Hz; seconds <-> days
        if i % 5 == 2:            # the same kind of record in tiny or huge physical units (1e-12, 1e9)
            specs[-1]["amp"] = 2.0 ** -40 if i % 2 == 0 else 2.0 ** 30
        if i % 5 == 4:            # a record with > 1e17 power dynamic range between bins: needs the 200 dB window and order -1/0 only
            specs[-1].update(data="dynrange", win="kaiser", psll=200, order=rnd.choice([-1, 0]))
            # with 1e17 between the line and the floor, a factor that is not a power of two re-rounds the line by more than the floor's
            # own size (rounding "relative to the size of the record"): such records are rescaled by powers of two only
            specs[-1]["variants"] = [(("scale", -4, 1, 2, 1) if v[0] == "scale" else ("gain", -4.0) if v[0] == "gain" else v) for v in specs[-1]["variants"]]
    for e in extra:
        v = variants_of(rnd)
        specs.append(dict(e, seed=rnd.randrange(2 ** 31), variants=e.get("variants") or v))
    return specs


def run_traces(V, pid, tier, seed, variants_of, **kw):
    specs = trace_specs(tier, seed, variants_of, **kw)
    trs = common.pmap(_rec, specs, chunksize=1)
    vd, tres = _traces.validate("ResultTrace", f"{pid}_rtrace", trs, timeout=3600)
    V.model(tres, "ResultTrace.tla (recorded analyses and their variants, every bin)")
    V.add("traces_validated_against_impl", len(trs))
    kinds = {}
    for t, v in zip(trs, vd):
        V.case(t["meta"], True)
        for e in t["ev"]:
            kinds[e["t"]] = kinds.get(e["t"], 0) + 1
        for (l, clause) in v:
            if not _traces.belongs(clause, pid):
                continue
            e = t["ev"][l - 1]
            V.violation(f"{pid}|trace|{e['t']}|{clause}|{t['meta']['backend']}",
                        {"kind": "result_trace", "spec": t["meta"], "event": l, "clause": clause, "ev": e,
                         "ref": t["ev"][e["j"] - 1] if "j" in e else None,
                         "message": f"ResultTrace rejected event {l} ({e['t']}) of analysis {t['meta']['sched']}/{t['meta']['win']}/order {t['meta']['order']}/{t['meta']['backend']}: {clause}: {e}"})
    V.set("trace_events_by_kind", kinds)
    V.sample({"analysis": trs[0]["meta"], "first_bin_event": trs[0]["ev"][0]})
    return trs


def replay_trace(payload):
    common.use_repo()
    t = _rt.record_analysis(payload["spec"])
    vd, _ = _traces.validate("ResultTrace", "rtrace_replay", [t])
    bad = [c for (_, c) in vd[0] if _traces.belongs(c, payload["property"])]
    print(bad)
    return 1 if bad else 0
