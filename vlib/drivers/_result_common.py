"""Shared pieces of the SpectrumResult drivers (C06, C09, C10, C11, C14, C20)."""
from __future__ import annotations

from .. import common, resultcases as rc, tlc


def grid_cases(tag, emit=True):
    res = tlc.run_model("Result", tag, constants=dict(Scope="grid", MaxHist=0, EmitCases=emit),
                        invariants=rc.RESULT_INVARIANTS, timeout=3600)
    if res.violated:
        raise tlc.TLCError(f"Result.tla (grid) violates its own invariant {res.violated}")
    return res, res.json_prints()


def hist_cases(tag, maxhist, simulate=None, depth=None, seed=None):
    res = tlc.run_model("Result", tag, constants=dict(Scope="hist", MaxHist=maxhist, EmitCases=True),
                        invariants=rc.RESULT_INVARIANTS, timeout=3600, simulate=simulate, depth=depth, seed=seed)
    if res.violated:
        raise tlc.TLCError(f"Result.tla (hist) violates its own invariant {res.violated}")
    js = res.json_prints()
    results = {j["rid"]: j["res"] for j in js if j.get("kind") == "res"}
    hists = [(j["rid"], j["hist"]) for j in js if j.get("kind") == "hist"]
    return res, results, hists


def _grid_worker(args):
    case, names = args
    return rc.replay_grid_case(case, names)


def replay_grid(V, pid, cases, names, label):
    out = common.pmap(_grid_worker, [(c, names) for c in cases], chunksize=64)
    for case, probs in zip(cases, out):
        b = case["bins"][0]
        V.case({"iscsd": case["iscsd"], "bin": b, "fs": case["fs"]}, True)
        for (name, j, got, exp) in probs:
            V.violation(f"{pid}|replay|{label}|{'csd' if case['iscsd'] else 'auto'}|{name}|{got.split(' ')[0]}",
                        {"kind": "result_grid", "case": {k: case[k] for k in ("iscsd", "fs", "bins")}, "name": name,
                         "expected_def": case["exp"].get(name), "got": got, "expected": exp,
                         "message": f"SpectrumResult.{name} on {'csd' if case['iscsd'] else 'auto'} result: {got}; {exp}"})
