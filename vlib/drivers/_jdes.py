"""C04: forcing a target bin count - JdesSearch.tla replay and JdesTrace.tla validation."""
from __future__ import annotations

import random

import numpy as np

from .. import common, tlc, traces

INV = ["NeverWrong", "ForcedIsExact", "ProbeBound", "WindowShrinks", "CompleteIfMonotone", "ProbesDistinct", "EmitRun"]


def replay_run(run):
    """Runs in a worker: execute the real search on the model's abstract scheduler."""
    from speckit import utils
    lo, hi = run["lo"], run["hi"]
    nf = run["nf"]
    probes = []

    def sched(**kw):
        J = kw["Jdes"]
        probes.append(J)
        return {"nf": nf[J - lo]}
    old = utils.MIN_JDES, utils.MAX_JDES
    utils.MIN_JDES, utils.MAX_JDES = lo, hi
    try:
        res = utils.find_Jdes_binary_search(sched, run["target"], N=64, fs=1.0, olap=0.5, bmin=1.0, Lmin=1, Kdes=2)
    finally:
        utils.MIN_JDES, utils.MAX_JDES = old
    got = -1 if res is None else int(res)
    bad = []
    if probes != run["probes"]:
        bad.append("probe_sequence")
    if got != run["result"]:
        bad.append("result")
    return bad, probes, got


def record_search(spec):
    """Real search with the real scheduler over the real Jdes range, then the analyzer's forced plan."""
    import speckit
    from speckit import schedulers, utils
    fn = getattr(schedulers, spec["fn"])
    ev = []

    def sched(**kw):
        out = fn(**kw)
        ev.append({"t": "probe", "J": int(kw["Jdes"]), "nf": int(out["nf"])})
        return out
    sched.__name__ = fn.__name__
    kw = dict(N=spec["N"], fs=1.0, olap=spec["olap"], bmin=1.0, Lmin=1, Kdes=spec["Kdes"])
    res = utils.find_Jdes_binary_search(sched, spec["target"], **kw)
    ev.append({"t": "result", "J": -1 if res is None else int(res)})
    raised, nfp, jd = 0, -1, -1
    try:
        a = speckit.SpectrumAnalyzer(np.zeros(spec["N"]), 1.0, olap=spec["olap"], bmin=1.0, Lmin=1, Kdes=spec["Kdes"],
                                     Jdes=spec["target"], scheduler=fn, force_target_nf=True)
        p = a.plan()
        nfp, jd = int(p["nf"]), int(a.config["Jdes"])
        if a.plan() is not p:
            raised = 2
    except RuntimeError:
        raised = 1
    ev.append({"t": "forced", "nf": nfp, "raised": raised, "jdes": jd})
    return {"meta": dict(spec), "c": {"lo": int(utils.MIN_JDES), "hi": int(utils.MAX_JDES), "target": spec["target"]}, "ev": ev}


def run(V, tier, sd, pid):
    consts = dict(Lo=1, Hi=6 if tier == "quick" else 7, MaxNf=3, EmitRuns=True)
    res = tlc.run_model("JdesSearch", f"{pid}_jdes", constants=consts, invariants=INV)
    if res.violated:
        raise tlc.TLCError(f"JdesSearch.tla violates {res.violated}")
    V.model(res, "JdesSearch.tla (all scheduler functions nf: Lo..Hi -> 0..MaxNf)")
    rl = tlc.run_model("JdesSearch", f"{pid}_jdes_live", constants=dict(consts, Hi=5, EmitRuns=False), properties=["Terminates"], spec="FairSpec")
    if rl.violated:
        raise tlc.TLCError(f"JdesSearch.tla: the search does not terminate: {rl.violated}")
    V.model(rl, "JdesSearch.tla FairSpec => <>(pc = done)")
    runs = res.json_prints()
    out = common.pmap(replay_run, runs, chunksize=512)
    for r, (bad, probes, got) in zip(runs, out):
        V.case(r, True)
        if bad:
            V.violation(f"{pid}|replay|find_Jdes_binary_search|{'+'.join(bad)}",
                        {"kind": "jdes_replay", "run": r, "got_probes": probes, "got_result": got,
                         "message": f"binary search on nf={r['nf']} target={r['target']}: probes {probes} result {got}, model {r['probes']} / {r['result']}"})
    V.set("jdes_model_runs_replayed", len(runs))
    # real searches
    rnd = random.Random(sd + 11)
    specs = []
    n = 24 if tier == "quick" else 200
    for i in range(n):
        N = rnd.choice([1000, 3000] if tier == "quick" else [2000, 5000, 20000])
        specs.append(dict(fn=rnd.choice(["ltf_plan", "lpsd_plan", "vectorized_ltf_plan"]), N=N, olap=rnd.choice([0.0, 0.5, 0.75]),
                          Kdes=rnd.choice([2, 10, 50]),
                          target=rnd.choice([5, 60, 150, 333, 400, N // 2 - 3, N])))
    trs = common.pmap(record_search, specs, chunksize=1)
    vd, tres = traces.validate("JdesTrace", f"{pid}_jdestrace", trs)
    V.model(tres, "JdesTrace.tla (real searches and forced plans)")
    V.add("traces_validated_against_impl", len(trs))
    for t, v in zip(trs, vd):
        V.case(t["meta"], True)
        for (l, clause) in v:
            V.violation(f"{pid}|trace|jdes|{clause}", {"kind": "jdes_trace", "spec": t["meta"], "event": l, "clause": clause,
                                                      "message": f"JdesTrace rejected event {l} {t['ev'][l-1]} of {t['meta']}: {clause}"})
    V.sample({"jdes_search_trace": {"spec": trs[0]["meta"], "events": trs[0]["ev"][:6]}})


def replay(payload):
    common.use_repo()
    if payload["kind"] == "jdes_replay":
        bad, probes, got = replay_run(payload["run"])
        print(bad, probes, got)
        return 1 if bad else 0
    t = record_search(payload["spec"])
    vd, _ = traces.validate("JdesTrace", "jdes_replay", [t])
    print(t["ev"][-3:], vd)
    return 1 if vd[0] else 0
