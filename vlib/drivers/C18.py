"""C18 - synthesised noise has the prescribed spectrum."""
from __future__ import annotations

import math
import random

import numpy as np

from .. import common, tlc, traces
from ..tlc import Raw

PID = "C18"
INV = ["Hermitian", "MagnitudesKept", "MirrorTakesPositiveSide", "Emit"]


def fft_case(item):
    """item = (model case, magnitude pattern id, seed)."""
    from speckit import noise
    case, pat, seed = item
    N = case["N"]
    rng0 = np.random.default_rng(seed)
    mags = {0: np.arange(1, N + 1, dtype=float), 1: np.ones(N), 2: np.array([(3 * k) % 5 + 1 for k in range(N)], dtype=float),
            3: rng0.uniform(0.5, 2.0, size=N),
            # spectra in other physical units: the statement is about magnitudes, whatever their scale
            4: rng0.uniform(0.5, 2.0, size=N) * 1e-18, 5: np.arange(1, N + 1, dtype=float) * 1e9}[pat]
    unit = float(np.max(mags))
    f = mags * np.exp(1j * rng0.uniform(0, 2 * np.pi, size=N))       # the caller's phases are arbitrary
    f[0] = mags[0]
    if N % 2 == 0:
        f[N // 2] = -mags[N // 2]                                    # real, negative: magnitude must still be kept
    f0 = f.copy()
    probs = []
    x = noise.fftnoise(f, rng=np.random.default_rng(seed + 1))
    if not np.array_equal(f, f0):
        probs.append(("caller_spectrum_modified", "", ""))
    if np.iscomplexobj(x) or x.shape != (N,):
        probs.append(("real_series_of_length_N", str(x.dtype), ""))
        return probs
    X = np.fft.fft(x)
    want = np.array([mags[m] for m in case["map"]])
    if not np.allclose(np.abs(X), want, rtol=1e-9, atol=1e-9 * unit):
        probs.append(("dft_magnitudes_are_the_prescribed_ones", np.abs(X).round(6).tolist(), want.tolist()))
    return probs


def band_case(item):
    from speckit import noise
    N, fs, lo, hi, seed = item
    x = noise.band_limited_noise(lo, hi, samples=N, samplerate=fs, rng=np.random.default_rng(seed))
    X = np.abs(np.fft.fft(x))
    fr = np.abs(np.fft.fftfreq(N, d=1.0 / fs))
    inb = (fr >= lo) & (fr <= hi)
    probs = []
    if np.any(X[~inb] > 1e-9):
        probs.append(("no_power_outside_band", float(X[~inb].max()), 0.0))
    if inb.any() and not np.allclose(X[inb], 1.0, rtol=1e-9, atol=1e-9):
        probs.append(("unit_magnitude_inside_band", X[inb].round(6).tolist()[:6], 1.0))
    if np.iscomplexobj(x):
        probs.append(("real_series", "", ""))
    return probs


def record_filter(spec):
    from scipy import signal
    from speckit import noise
    ev = []
    for (alpha, fs, fmin, fmax) in spec["grid"]:
        g = None
        for _ in range(3):                       # the k-th instance with identical parameters must be as good as the first
            g = noise.alpha_noise(fs, fmin, fmax, alpha, init_filter=False, seed=1)
        a, b = np.asarray(g._a_coeffs), np.asarray(g._b_coeffs)
        nsec = a.shape[0]
        fe_min, fe_max = float(g.fmin), float(g.fmax)
        fr = np.logspace(math.log10(fe_min), math.log10(fe_max), 100)
        H = np.ones_like(fr, dtype=complex)
        for i in range(nsec):
            _, h = signal.freqz(a[i], b[i], worN=fr, fs=fs)
            H *= h
        wn = noise.white_noise(fs, psd=1.0)
        dens = np.abs(H) ** 2 * g._scaling ** 2 * wn.rms ** 2 / fs
        err = 10 * np.log10(dens * fr ** alpha)
        inner = (fr >= 4 * fe_min) & (fr <= fe_max / 4)
        z = -a[:, 1] / a[:, 0]
        p = -b[:, 1] / b[:, 0]
        # corner frequencies from the bilinear coefficients: pole corner (fmin_i) below zero corner (fmax_i), then the next pole
        fz = (1 - z) / (1 + z) * fs / np.pi
        fp = (1 - p) / (1 + p) * fs / np.pi
        # (corners are recovered from 1 - p with p within 1e-8 of 1: allow the 1e-8 relative rounding of that difference; for
        #  alpha = 2 a zero corner coincides with the next pole corner)
        inter = bool(np.all(fp < fz * (1 + 1e-6) + 1e-12) and np.all(fz[:-1] < fp[1:] * (1 + 1e-6) + 1e-12))
        e1 = -1
        if 4 * fe_min <= 1.0 <= fe_max / 4:
            _h = np.ones(1, dtype=complex)
            for i in range(nsec):
                _h = _h * signal.freqz(a[i], b[i], worN=np.array([1.0]), fs=fs)[1]
            e1 = int(round(abs(10 * math.log10(float(np.abs(_h[0]) ** 2 * g._scaling ** 2 * wn.rms ** 2 / fs))) * 100))
        psd = 2.5
        w2 = noise.white_noise(fs, psd=psd)
        ev.append({"nsec": int(nsec), "nsecx": int(math.ceil(4.5 * (math.log10(fmax) - math.log10(fmin)))), "inter": int(inter),
                   "b0": int(np.all(b[:, 0] == 1.0)), "wide": int(inner.any()), "ein": int(round(float(np.max(np.abs(err[inner]))) * 100)) if inner.any() else 0,
                   "eall": int(round(float(np.max(np.abs(err))) * 100)), "e1": e1, "qvar": traces.q(float(w2.rms ** 2) / (psd * fs)),
                   "alpha100": int(round(alpha * 100))})
    return {"meta": dict(spec, grid=spec["grid"][:4]), "c": {}, "ev": ev}


def run(tier):
    V = common.Verdict(PID, tier, "model_checking")
    sd = common.seed()
    r0 = tlc.run_model("FftNoise", f"{PID}_variant", constants=dict(FNs=Raw("2..9"), EmitCases=False, RealTopBinAlways=True), invariants=INV)
    if not r0.violated:
        raise tlc.TLCError("FftNoise.tla variant (top bin forced real for odd N) should violate an invariant (vacuity guard)")
    res = tlc.run_model("FftNoise", f"{PID}_model", constants=dict(FNs=Raw("2..12" if tier == "quick" else "2..24"), EmitCases=True, RealTopBinAlways=False), invariants=INV)
    if res.violated:
        raise tlc.TLCError(f"FftNoise.tla violates {res.violated}")
    V.model(res, "FftNoise.tla: Hermitian mirror index logic for odd and even lengths")
    cases = res.json_prints()
    items = [(c, pat, 10 * sd + k) for k, c in enumerate(cases) for pat in (0, 1, 2, 3, 4, 5)]
    for it, probs in zip(items, common.pmap(fft_case, items, chunksize=8)):
        V.case({"N": it[0]["N"], "pattern": it[1]}, True)
        for (what, got, exp) in probs:
            V.violation(f"{PID}|fftnoise|{what}|{'odd' if it[0]['N'] % 2 else 'even'}_N",
                        {"kind": "fft_case", "item": list(it), "message": f"fftnoise, N={it[0]['N']}, magnitude pattern {it[1]}: {what}: {got} vs {exp}"})
    bands = [(N, fs, lo, hi, sd + 3) for N in (7, 8, 15, 16, 33, 64, 101, 4098, 5003, 10007) for fs in (1.0, 10.0)     # (long lengths with large prime factors: no padded transform)
             for (lo, hi) in ((0.0, fs / 2), (0.1 * fs, 0.3 * fs), (0.2 * fs, 0.2 * fs), (0.0, 0.0), (0.3 * fs, fs / 2), (fs / N, 2 * fs / N))]
    for it, probs in zip(bands, common.pmap(band_case, bands, chunksize=8)):
        V.case({"band": it}, True)
        for (what, got, exp) in probs:
            V.violation(f"{PID}|band|{what}|{'odd' if it[0] % 2 else 'even'}_N", {"kind": "band_case", "item": list(it), "message": f"band_limited_noise{it}: {what}: {got} vs {exp}"})
    # shaping filter contract
    rnd = random.Random(sd + 61)
    grid = [(al, fs, fmin, fmax) for al in (0.01, 0.25, 0.5, 1.0, 1.5, 2.0) for (fs, fmin, fmax) in ((100.0, 0.01, 10.0), (1000.0, 0.1, 500.0), (2.0, 1e-4, 0.2), (10.0, 0.5, 5.0), (100.0, 1.0, 40.0), (1000.0, 0.05, 1.0))]
    # extreme band-edge to sampling-rate ratios (f_min/fs down to 1e-9: poles within 1e-8 of the unit circle)
    grid += [(al, fs, fmin, fmax) for al in (0.5, 1.0, 2.0) for (fs, fmin, fmax) in ((1e6, 1e-3, 1e4), (1e5, 1e-4, 10.0))]
    if tier == "thorough":
        grid += [(round(rnd.uniform(0.01, 2.0), 3), fs, fmin, fmax) for fs, fmin, fmax in ((50.0, 0.003, 25.0), (1.0, 1e-5, 0.5), (400.0, 1.0, 40.0)) for _ in range(8)]
    specs = [dict(grid=grid[i::6]) for i in range(6)]
    trs = common.pmap(record_filter, specs, chunksize=1)
    vd, tres = traces.validate("FilterTrace", f"{PID}_trace", trs)
    V.model(tres, "FilterTrace.tla (shaping-filter contract, coefficient structure, white variance)")
    V.add("traces_validated_against_impl", len(trs))
    for t, v in zip(trs, vd):
        for e in t["ev"]:
            V.case(e, True)
        for (l, clause) in v:
            V.violation(f"{PID}|filter|{clause}", {"kind": "filter_trace", "spec": t["meta"], "event": l, "message": f"FilterTrace rejected {t['ev'][l-1]}: {clause}"})
    V.sample({"fft_model_case": cases[0], "filter_event": trs[0]["ev"][0]})
    V.assumptions += ["the filter clause is a contract trace: the recorder evaluates the response of the generator's own coefficient arrays (scipy freqz) on the third instance built with identical parameters; bounds 1.5 dB on [4 fmin_eff, fmax_eff/4], 3.5 dB to the corners (level 'other' for that clause)",
                      "the random phases are the generator's; magnitudes are compared through numpy's FFT"]
    return V.finish(rule="cases = FftNoise.tla lengths x 4 magnitude patterns, band grid (odd/even N, degenerate bands), filter grid (alpha x (fs, fmin, fmax)); distinct by content hash")


def replay(payload):
    common.use_repo()
    k = payload["kind"]
    if k == "fft_case":
        it = payload["item"]
        p = fft_case((it[0], it[1], it[2]))
    elif k == "band_case":
        p = band_case(tuple(payload["item"]))
    else:
        print("re-run the check")
        return 1
    print(p)
    return 1 if p else 0
