"""C15 - optimal multi-input subtraction yields a physical, consistent residual."""
from __future__ import annotations

import random

import numpy as np

from .. import common, tlc, traces
from ..tlc import Raw

PID = "C15"
INV = ["ResidualIsReal", "ResidualBounds", "ResidualIsLeastSquares", "ZeroForExactCombination", "PermutationInvariant", "RemixInvariant",
       "SisoIsGyyOneMinusCoh", "Emit"]


def _c(z):
    return complex(z[0][0] / z[0][1], z[1][0] / z[1][1])


def replay_group(item):
    """All model cases of one q as the bins of stubbed spectra; both solvers (and the SISO helper) must return the exact residual."""
    from speckit import systems
    from speckit.analysis import SpectrumResult
    q, cases = item
    nf = len(cases)
    fs = 2.0
    M = {}
    M[(1, 1)] = np.array([_c(c["T11"]) for c in cases])
    M[(1, 2)] = np.array([_c(c["T12"]) for c in cases])
    M[(2, 1)] = np.conj(M[(1, 2)])
    M[(2, 2)] = np.array([_c(c["T22"]) for c in cases])
    M[(1, 0)] = np.array([_c(c["S10"]) for c in cases])
    M[(2, 0)] = np.array([_c(c["S20"]) for c in cases])
    M[(0, 1)] = np.conj(M[(1, 0)])
    M[(0, 2)] = np.conj(M[(2, 0)])
    M[(0, 0)] = np.array([_c(c["S00"]) for c in cases])
    exp = np.array([c["res"][0] / c["res"][1] for c in cases])
    f = np.arange(1, nf + 1, dtype=float)

    def stub(data, fs_, **kw):
        if isinstance(data, (list, tuple)) or (isinstance(data, np.ndarray) and data.ndim == 2):
            a, b = int(round(float(data[0][0]))), int(round(float(data[1][0])))
            d = {"f": f, "XX": M[(a, a)].real, "YY": M[(b, b)].real, "XY": M[(a, b)], "S2": np.full(nf, 2.0 / fs_), "S12": np.ones(nf),
                 "M2": np.zeros(nf), "navg": np.full(nf, 3, dtype=np.int64)}
            return SpectrumResult(d, {}, True, fs_)
        a = int(round(float(data[0])))
        d = {"f": f, "XX": M[(a, a)].real, "YY": M[(a, a)].real, "XY": M[(a, a)], "S2": np.full(nf, 2.0 / fs_), "S12": np.ones(nf),
             "M2": np.zeros(nf), "navg": np.full(nf, 3, dtype=np.int64)}
        return SpectrumResult(d, {}, False, fs_)
    chan = lambda k: np.array([float(k), 0.0, 0.0, 0.0])
    old = systems.ltf
    systems.ltf = stub
    probs = []
    try:
        inputs = [chan(k) for k in range(1, q + 1)]
        runs = [("analytic", systems.MISO_analytic_optimal_spectral_analysis), ("numeric", systems.MISO_numeric_optimal_spectral_analysis)]
        for label, fn in runs:
            with np.errstate(all="ignore"):
                _, asd = fn(inputs, chan(0), fs)
            got = np.asarray(asd, dtype=float) ** 2
            bad = np.where(~(np.abs(got - exp) <= 1e-9 * np.maximum(1.0, np.abs(exp))))[0]
            for j in bad[:3]:
                probs.append((label, int(j), float(got[j]), float(exp[j])))
        if q == 1:
            with np.errstate(all="ignore"):
                _, asd = systems.SISO_optimal_spectral_analysis(chan(1), chan(0), fs)
            got = np.asarray(asd, dtype=float) ** 2
            bad = np.where(~(np.abs(got - exp) <= 1e-9 * np.maximum(1.0, np.abs(exp))))[0]
            for j in bad[:3]:
                probs.append(("siso", int(j), float(got[j]), float(exp[j])))
    finally:
        systems.ltf = old
    return probs


def record_system(spec):
    from speckit import systems
    import speckit
    rng = np.random.default_rng(spec["seed"])
    q, N, fs = spec["q"], spec["N"], 2.0
    X = [rng.standard_normal(N) for _ in range(q)]
    if spec.get("corr"):                                           # strongly correlated inputs (condition number 1e8): every term of the residual formula matters
        X = [X[0]] + [X[0] + 1e-4 * x for x in X[1:]]
    if spec.get("drift"):                                          # non-stationary inputs: any re-weighting of segments shows
        X = [x * np.linspace(0.5, 1.5, N) ** (i + 1) for i, x in enumerate(X)]
    for i in range(1, q):
        X[i] = X[i] + 0.4 * X[0]                                  # correlated inputs
    gains = rng.uniform(-2, 2, size=q)
    delays = [int(d) for d in rng.integers(0, 3, size=q)]
    y = 0.5 * rng.standard_normal(N)
    for i in range(q):
        y = y + gains[i] * np.roll(X[i], delays[i])
    if spec.get("offset"):                                         # records with DC offsets (no detrending: order -1): auto- and cross-spectra
        X = [x + 5.0 * (i + 1) for i, x in enumerate(X)]           # come from different kernels and must treat the offset alike
        y = y - 3.0
    kw = dict(scheduler=spec["sched"], order=spec["order"], Jdes=spec.get("Jdes", 20), Kdes=8, Lmin=spec["Lmin"], olap=0.5, backend=spec["backend"])
    ev = []
    with np.errstate(all="ignore"):
        S00 = speckit.compute_spectrum(y, fs, **kw)
        K = [int(k) for k in S00.K]
        gyy = np.asarray(S00.Gxx)
        f_ref, a_ref = systems.MISO_analytic_optimal_spectral_analysis(X, y, fs, **kw)
        nf = len(f_ref)

        def add(asd, kind, v):
            for j in range(nf):
                ev.append({"v": v, "j": j + 1, "K": K[j], "kind": kind, "r": traces.q(float(asd[j]) ** 2 / float(gyy[j])) if gyy[j] > 0 else 0})
        add(a_ref, "ref", "analytic")
        _, a = systems.MISO_numeric_optimal_spectral_analysis(X, y, fs, **kw)
        add(a, "same", "numeric")
        if q >= 2:
            perm = list(rng.permutation(q))
            _, a = systems.MISO_numeric_optimal_spectral_analysis([X[i] for i in perm], y, fs, **kw)
            add(a, "same", "permuted")
            A = rng.integers(-2, 3, size=(q, q)).astype(float) + 3 * np.eye(q)
            while np.linalg.cond(A) > 20:                       # "invertibly re-mixing": a well-conditioned integer matrix
                A = rng.integers(-2, 3, size=(q, q)).astype(float) + 3 * np.eye(q)
            Xm = [sum(A[i, k] * X[k] for k in range(q)) for i in range(q)]
            _, a = systems.MISO_analytic_optimal_spectral_analysis(Xm, y, fs, **kw) if q <= 3 else systems.MISO_numeric_optimal_spectral_analysis(Xm, y, fs, **kw)
            add(a, "same", "remixed")
            if not spec.get("offset") and not spec.get("corr"):      # (with undetrended offsets the inputs are nearly collinear near DC: rescaling ONE input moves the
                Xs = [X[0] * 1e-6] + X[1:]  #  ill-conditioned numeric solution by more than the comparison allows)
                _, a = systems.MISO_numeric_optimal_spectral_analysis(Xs, y, fs, **kw)
                add(a, "same", "rescaled_numeric")
        else:
            r2 = speckit.compute_spectrum(np.vstack([X[0], y]), fs, **kw)
            add(np.sqrt(np.asarray(r2.Gyy) * (1 - np.asarray(r2.coh))), "siso", "Gyy(1-coh)")
            r2b = speckit.compute_spectrum(np.vstack([X[0], y]), fs, **kw)      # the residual read first, then the quantities it is made of
            gs = np.asarray(r2b.GyySx).copy()
            add(np.sqrt(np.asarray(r2b.Gyy) * (1 - np.asarray(r2b.coh))), "siso", "Gyy(1-coh)_read_after_GyySx")
            add(np.sqrt(gs), "siso", "GyySx_itself")
            _, a = systems.SISO_optimal_spectral_analysis(X[0], y, fs, **kw)
            add(a, "same", "siso_helper")
        # the same inputs in other units / number formats: nano-units (input power 1e18 below the output's), and integer
        # samples (ADC counts: inputs * 1000 rounded to int64, the output stays a float record)
        Xn = [x * 1e-9 for x in X]
        Xi = [np.round(x * 1000.0).astype(np.int64) for x in X]
        for label, fn in (("analytic", systems.MISO_analytic_optimal_spectral_analysis), ("numeric", systems.MISO_numeric_optimal_spectral_analysis)):
            if label == "analytic" and q > 3:
                continue
            _, a = fn(Xn, y, fs, **kw)
            add(a, "same", "nano_unit_inputs_" + label)
            _, a = fn(Xi, y, fs, **kw)
            _, a0 = fn([x.astype(np.float64) for x in Xi], y, fs, **kw)          # the same numbers as float64 samples
            for j in range(nf):
                ev.append({"v": "integer_inputs_" + label, "j": j + 1, "K": K[j], "kind": "pair",
                           "r": traces.q(float(a[j]) ** 2 / float(gyy[j])) if gyy[j] > 0 else 0, "r0": traces.q(float(a0[j]) ** 2 / float(gyy[j])) if gyy[j] > 0 else 0})
        if q == 1:
            _, a = systems.SISO_optimal_spectral_analysis(Xn[0], y, fs, **kw)
            add(a, "same", "siso_helper_nano_unit_input")
            _, a = systems.SISO_optimal_spectral_analysis(Xi[0], y, fs, **kw)
            _, a0 = systems.SISO_optimal_spectral_analysis(Xi[0].astype(np.float64), y, fs, **kw)
            for j in range(nf):
                ev.append({"v": "siso_helper_integer_input", "j": j + 1, "K": K[j], "kind": "pair",
                           "r": traces.q(float(a[j]) ** 2 / float(gyy[j])) if gyy[j] > 0 else 0, "r0": traces.q(float(a0[j]) ** 2 / float(gyy[j])) if gyy[j] > 0 else 0})
            r3 = speckit.compute_spectrum(np.vstack([Xn[0], y]), fs, **kw)
            add(np.asarray(r3.GyySx) ** 0.5, "same", "GyySx_nano_unit_input")
        yz = sum(gains[i] * X[i] for i in range(q))               # exact static combination
        S0z = speckit.compute_spectrum(yz, fs, **kw)
        gz = np.asarray(S0z.Gxx)
        for label, fn in (("analytic", systems.MISO_analytic_optimal_spectral_analysis), ("numeric", systems.MISO_numeric_optimal_spectral_analysis)):
            if label == "analytic" and q > 3:
                continue
            _, a = fn(X, yz, fs, **kw)
            for j in range(nf):
                ev.append({"v": "exact_" + label, "j": j + 1, "K": K[j], "kind": "zero", "r": traces.q(float(a[j]) ** 2 / float(gz[j])) if gz[j] > 0 else 0,
                           "r30": traces.q(float(a[j]) ** 2 / float(gz[j]), 2 ** 30) if gz[j] > 0 else 0})
    return {"meta": dict(spec), "c": {"q": q, "kmin": 64 if spec.get("corr") else q}, "ev": ev}


def run(tier):
    V = common.Verdict(PID, tier, "model_checking")
    sd = common.seed()
    res = tlc.run_model("Miso", f"{PID}_model", constants=dict(Amps=Raw("{<<1,0>>,<<0,1>>,<<-1,1>>}"), EmitCases=True), invariants=INV, timeout=3600)
    if res.violated:
        raise tlc.TLCError(f"Miso.tla violates {res.violated}")
    V.model(res, "Miso.tla: residual formula vs least squares, bounds, exact combinations, permutation / re-mixing invariance, SISO identity (q = 1, 2)")
    cases = res.json_prints()
    groups = [(q, [c for c in cases if c["q"] == q]) for q in (1, 2)]
    for (q, cs), probs in zip(groups, [replay_group(g) for g in groups]):
        for c in cs:
            V.case(c, c["res"][0] != 0)
        for (label, j, got, exp) in probs:
            V.violation(f"{PID}|replay|{label}|q={q}", {"kind": "miso_case", "q": q, "case": cs[j], "message": f"{label} solver, q={q}, stubbed exact spectra {cs[j]}: residual {got}, exact {exp}"})
    V.sample({"model_case": cases[len(cases) // 2]})
    rnd = random.Random(sd + 81)
    specs = []
    for k in range(8 if tier == "quick" else 40):
        specs.append(dict(seed=rnd.randrange(2 ** 31), q=[1, 2, 3, 4][k % 4], N=rnd.choice([2000, 4000]), sched=rnd.choice(["ltf", "vectorized_ltf"]),
                          order=rnd.choice([0, 1, 2]), Lmin=rnd.choice([1, 32]), backend=["numba", "numpy"][(k // 4) % 2]))
    # long records with short segments on the NumPy backend: bins with K far above the kernels' chunk sizes; auto- and cross-spectra come
    # from different kernels and must stay mutually consistent (zero residual for an exact combination)
    for k in range(4 if tier == "quick" else 12):          # no detrending, records with DC offsets, both backends
        specs.append(dict(seed=rnd.randrange(2 ** 31), q=[1, 2, 2, 3][k % 4], N=3000, sched=["ltf", "vectorized_ltf"][k % 2], order=-1, Lmin=1,
                          backend=["numpy", "numba"][(k // 2) % 2], offset=True))
    for k in range(2 if tier == "quick" else 8):           # nearly collinear inputs
        specs.append(dict(seed=rnd.randrange(2 ** 31), q=2, N=4000, sched="ltf", order=[0, 1][k % 2], Lmin=32, backend=["numba", "numpy"][k % 2], corr=True))
        # (q = 2 only: three inputs that are all copies of one to 1e-4 have a condition number beyond double precision)
    for o in ((1,) if tier == "quick" else (0, 1, 2)):
        specs.append(dict(seed=rnd.randrange(2 ** 31), q=2, N=60000, sched="ltf", order=o, Lmin=1, backend="numpy", Jdes=10, drift=True))
    trs = common.pmap(record_system, specs, chunksize=1)
    vd, tres = traces.validate("MisoTrace", f"{PID}_trace", trs)
    V.model(tres, "MisoTrace.tla (random systems, q = 1..4, both solvers, variants)")
    V.add("traces_validated_against_impl", len(trs))
    for t, v in zip(trs, vd):
        V.case(t["meta"], True)
        seen = set()
        for (l, clause) in v:
            e = t["ev"][l - 1]
            key = (clause, e["v"])
            if key in seen:
                continue
            seen.add(key)
            V.violation(f"{PID}|trace|{clause}|{e['v']}|q={t['c']['q']}", {"kind": "miso_trace", "spec": t["meta"], "event": l,
                                                                          "message": f"MisoTrace rejected {e} (reference {t['ev'][e['j'] - 1]}) of {t['meta']}: {clause}"})
    V.assumptions += ["exact replay stubs speckit.systems.ltf (harness side) with SpectrumResult objects built from the model's Gram matrices",
                      "at scale the residual is compared relative to the output's own spectrum (Q 2^20, 16 quanta); bounds are asserted on bins with more than q segments"]
    return V.finish(rule="cases = terminal states of Miso.tla (segment amplitudes over {1, i, -1+i}) as bins of stubbed spectra for both solvers + random systems q = 1..4 with variants; distinct by content hash; non-trivial = non-zero residual")


def replay(payload):
    common.use_repo()
    if payload["kind"] == "miso_case":
        p = replay_group((payload["q"], [payload["case"]]))
        print(p)
        return 1 if p else 0
    t = record_system(payload["spec"])
    vd, _ = traces.validate("MisoTrace", f"{PID}_replay", [t])
    print(vd[0][:5])
    return 1 if vd[0] else 0
