"""C19 - time-domain detrending and RMS integration are exact and mutually consistent."""
from __future__ import annotations

import random

import numpy as np

from .. import common, tlc, traces
from .C16 import wrapper_case

PID = "C19"
INV = ["OrthogonalToPolynomials", "PolynomialGoesToZero", "Idempotent", "Additive", "MonotoneUnderNesting", "NonNegative", "Emit"]


def detrend_case(case):
    from speckit import dsp
    x = np.array(case["x"], dtype=float)
    exp = np.array(case["res"], dtype=float) / case["scale"]
    x0 = x.copy()
    got = np.asarray(dsp.polynomial_detrend(x, order=case["p"]), dtype=float)
    probs = []
    tol = 1e-9 * max(1.0, float(np.abs(x).max()))
    if got.shape != exp.shape or not np.allclose(got, exp, rtol=0, atol=tol):
        probs.append(("detrend_value", got.tolist(), exp.tolist()))
    if not np.array_equal(x, x0):
        probs.append(("input_modified", x.tolist(), x0.tolist()))
    return probs


def rms_case(case):
    from speckit import dsp
    f = np.array(case["f"], dtype=float)
    asd = np.sqrt(np.array(case["v"], dtype=float))
    lo, hi = case["lo2"] / 2.0, case["hi2"] / 2.0
    exp2 = case["rms2x2"] / 2.0
    got = float(dsp.integral_rms(f, asd, (lo, hi)))
    probs = []
    if abs(got * got - exp2) > 1e-9 * max(1.0, exp2):
        probs.append(("band_rms_value", got * got, exp2))
    # the result's own method, with the band ends swapped
    from speckit.analysis import SpectrumResult
    nf = len(f)
    S2 = np.ones(nf)
    res = SpectrumResult({"f": f, "XX": np.array(case["v"], dtype=float) / 2.0, "YY": np.zeros(nf), "XY": np.zeros(nf, dtype=complex), "S2": S2,
                          "S12": S2, "M2": np.zeros(nf), "navg": np.ones(nf, dtype=np.int64)}, {}, False, 1.0)       # Gxx = 2*XX/(fs*S2) = v
    g1 = float(res.get_rms((hi, lo)))
    if abs(g1 * g1 - exp2) > 1e-9 * max(1.0, exp2):
        probs.append(("get_rms_value", g1 * g1, exp2))
    return probs


def record_td(spec):
    from speckit import dsp
    from speckit.analysis import SpectrumResult
    rng = np.random.default_rng(spec["seed"])
    ev = []
    for order in spec["orders"]:
        n = int(rng.choice([order + 1, order + 2, 50, 400, 3000])) if not spec.get("long") else (12000 if order <= 3 else 4000)
        t = np.arange(n, dtype=float)
        x = np.cumsum(rng.standard_normal(n)) + 3.0
        r = np.asarray(dsp.polynomial_detrend(x, order=order))
        nx, nr = float(np.linalg.norm(x)), float(np.linalg.norm(r))
        tt = (t - t.mean()) / max(1.0, t.max())
        qdot = max(abs(float(r @ tt ** k)) / (nx * float(np.linalg.norm(tt ** k)) + 1e-300) for k in range(order + 1))
        r2 = np.asarray(dsp.polynomial_detrend(r, order=order))
        qidem = float(np.linalg.norm(r2 - r)) / (nx + 1e-300)
        poly = np.polyval(rng.uniform(-1, 1, size=order + 1), tt)
        qpoly = float(np.linalg.norm(dsp.polynomial_detrend(poly, order=order))) / (float(np.linalg.norm(poly)) + 1e-300)
        ev.append({"t": "detrend", "order": int(order), "n": n, "qdot": traces.q(qdot, 2 ** 30), "qidem": traces.q(qidem, 2 ** 30), "qpoly": traces.q(qpoly, 2 ** 30)})
        if order <= 3:
            # complex-valued series (I/Q data): the residual is orthogonal to every real polynomial in both parts
            xc = x + 1j * (np.cumsum(rng.standard_normal(n)) - 2.0 + 0.01 * t)
            rc = np.asarray(dsp.polynomial_detrend(xc, order=order))
            nxc = float(np.linalg.norm(xc))
            qdc = max(abs(complex(np.sum(rc * tt ** k))) / (nxc * float(np.linalg.norm(tt ** k)) + 1e-300) for k in range(order + 1))
            rc2 = np.asarray(dsp.polynomial_detrend(rc, order=order))
            polyc = poly * (1.0 - 0.5j)
            qpc = float(np.linalg.norm(dsp.polynomial_detrend(polyc, order=order))) / (float(np.linalg.norm(polyc)) + 1e-300)
            ev.append({"t": "detrend", "order": int(order), "n": n, "qdot": traces.q(qdc, 2 ** 30), "qidem": traces.q(float(np.linalg.norm(rc2 - rc)) / (nxc + 1e-300), 2 ** 30),
                       "qpoly": traces.q(qpc, 2 ** 30)})
        if spec.get("long") or n >= 400:
            # the same for single-precision samples (the residual is the float64 residual of exactly these numbers)
            x32 = x.astype(np.float32)
            r = np.asarray(dsp.polynomial_detrend(x32, order=order), dtype=float)
            nx = float(np.linalg.norm(x32.astype(float)))
            qdot = max(abs(float(r @ tt ** k)) / (nx * float(np.linalg.norm(tt ** k)) + 1e-300) for k in range(order + 1))
            r2 = np.asarray(dsp.polynomial_detrend(r.astype(np.float32), order=order), dtype=float)
            qidem = float(np.linalg.norm(r2 - r.astype(np.float32).astype(float))) / (nx + 1e-300)
            p32 = poly.astype(np.float32)
            qpoly = float(np.linalg.norm(np.asarray(dsp.polynomial_detrend(p32, order=order), dtype=float))) / (float(np.linalg.norm(poly)) + 1e-300)
            ev.append({"t": "detrend32", "order": int(order), "n": n, "qdot": traces.q(qdot, 2 ** 30), "qidem": traces.q(qidem, 2 ** 30), "qpoly": traces.q(qpoly, 2 ** 30)})
    for _ in range(spec["nrms"]):
        nf = int(rng.integers(3, 40))
        f = np.cumsum(rng.uniform(0.1, 2.0, size=nf))
        asd = rng.uniform(0.1, 3.0, size=nf)
        i, m, j = sorted(rng.choice(nf, size=3, replace=False))
        a, mid, b = float(f[i]), float(f[m]), float(f[j])
        full = float(dsp.integral_rms(f, asd, (a, b))) ** 2
        parts = float(dsp.integral_rms(f, asd, (a, mid))) ** 2 + float(dsp.integral_rms(f, asd, (mid, b))) ** 2
        inner = float(dsp.integral_rms(f, asd, (float(rng.uniform(a, mid)), float(rng.uniform(mid, b)))))
        S2 = np.ones(nf)
        res = SpectrumResult({"f": f, "XX": asd ** 2 / 2.0, "YY": np.zeros(nf), "XY": np.zeros(nf, dtype=complex), "S2": S2, "S12": S2,
                              "M2": np.zeros(nf), "navg": np.ones(nf, dtype=np.int64)}, {}, False, 1.0)
        sw = float(res.get_rms((b, a)))
        fullband = float(res.get_rms())
        # bands that differ in the last place only but select different grid points (the lower edge on f[i] / just above it),
        # asked one after the other on the same result
        a_up = float(np.nextafter(a, np.inf))
        b_dn = float(np.nextafter(b, -np.inf))
        qedge = 0.0
        for band in ((a, b), (a_up, b), (a, b_dn), (a_up, b_dn), (a, b)):
            want = float(dsp.integral_rms(f, asd, band))
            got = float(res.get_rms(band))
            qedge = max(qedge, abs(got - want) / (abs(want) + 1e-300))
        cres = SpectrumResult({"f": f, "XX": asd, "YY": asd, "XY": asd.astype(complex), "S2": S2, "S12": S2, "M2": S2, "navg": np.ones(nf, dtype=np.int64)}, {}, True, 1.0)
        try:
            cres.get_rms()
            raises = 0
        except NotImplementedError:
            raises = 1
        ev.append({"t": "rms", "qadd": traces.q(abs(parts - full) / (full + 1e-300), 2 ** 30), "nested": int(inner <= np.sqrt(full) * (1 + 1e-12)),
                   "qswap": traces.q(abs(sw - np.sqrt(full)) / (np.sqrt(full) + 1e-300), 2 ** 30),
                   "qfull": traces.q(abs(fullband - float(dsp.integral_rms(f, asd))) / (fullband + 1e-300), 2 ** 30), "cross_raises": raises,
                   "qedge": traces.q(qedge, 2 ** 30)})
    for _ in range(spec.get("nsteep", 0)):
        # steep (1/f^3) ASD over many decades: the band power must be the integral over the in-band points, not a difference of large numbers
        nf = int(rng.integers(30, 80))
        f = np.logspace(-3, 3, nf)
        asd = f ** -3.0 * rng.uniform(0.5, 2.0, size=nf)
        i = int(rng.integers(nf // 2, nf - 3))
        j = int(rng.integers(i + 2, nf))
        a, b = float(f[i]), float(f[j - 1])
        got = float(dsp.integral_rms(f, asd, (a, b))) ** 2
        m = (f >= a) & (f <= b)
        want = float(np.sum(np.diff(f[m]) * (asd[m][1:] ** 2 + asd[m][:-1] ** 2) / 2.0))
        ev.append({"t": "steep", "qdef": traces.q(abs(got - want) / want, 2 ** 30)})
    if spec.get("parseval"):
        import speckit
        N = 100000
        rngp = np.random.default_rng(12345)          # fixed data: the bound has a statistical component
        for kind in ("white", "pink"):
            if kind == "white":
                x = rngp.standard_normal(N)
            else:
                from speckit.noise import pink_noise
                x = pink_noise(100.0, 0.05, 40.0, seed=7).get_series(N)
            x = x - x.mean()
            r = speckit.compute_spectrum(x, 100.0, order=0, Jdes=300, Kdes=50, scheduler="ltf")
            ev.append({"t": "parseval", "qratio": traces.q(float(r.get_rms()) / float(np.sqrt(np.mean(x ** 2))))})
    return {"meta": dict(spec), "c": {}, "ev": ev}


def run(tier):
    V = common.Verdict(PID, tier, "model_checking")
    sd = common.seed()
    rd = tlc.run_model("TimeDomain", f"{PID}_detrend", constants=dict(Part="detrend", EmitCases=True), invariants=INV)
    rr = tlc.run_model("TimeDomain", f"{PID}_rms", constants=dict(Part="rms", EmitCases=True), invariants=INV)
    for r in (rd, rr):
        if r.violated:
            raise tlc.TLCError(f"TimeDomain.tla violates {r.violated}")
    V.model(rd, "TimeDomain.tla part=detrend (exact LSQ residual: orthogonality, polynomial -> 0, idempotence, order fallback)")
    V.model(rr, "TimeDomain.tla part=rms (trapezoid over the in-band grid points: additivity, nesting, degenerate bands)")
    dc, rcases = rd.json_prints(), rr.json_prints()
    for c, probs in zip(dc, common.pmap(detrend_case, dc, chunksize=32)):
        V.case(c, True)
        for (what, got, exp) in probs:
            V.violation(f"{PID}|replay|{what}|order={c['p']}|n={len(c['x'])}", {"kind": "detrend_case", "case": c, "message": f"polynomial_detrend({c['x']}, order={c['p']}): {what}: got {got}, exact {exp}"})
    for c, probs in zip(rcases, common.pmap(rms_case, rcases, chunksize=64)):
        V.case(c, c["rms2x2"] > 0)
        for (what, got, exp) in probs:
            edge = "band_end_on_grid_point" if (c["hi2"] % 2 == 0 and c["hi2"] // 2 in c["f"]) or (c["lo2"] % 2 == 0 and c["lo2"] // 2 in c["f"]) else "band_end_between_points"
            V.violation(f"{PID}|replay|{what}|{edge}", {"kind": "rms_case", "case": c, "message": f"band ({c['lo2']/2}, {c['hi2']/2}) on grid {c['f']} with ASD^2 {c['v']}: {what}: got rms^2 {got}, exact {exp}"})
    rw = tlc.run_model("DfWrapper", f"{PID}_wrapper", constants=dict(NRows=12, EmitCases=True), invariants=["OnlySelectedNumeric", "ChainShiftsOnce", "DuplicateSelectionIsIdempotent", "Emit"])
    V.model(rw, "DfWrapper.tla (df_detrend rows)")
    wc = [w for w in rw.json_prints() if w["cfg"]["fn"] == "detrend"]
    for w, probs in zip(wc, common.pmap(wrapper_case, wc, chunksize=4)):
        V.case(w["cfg"], True)
        for (what, got, exp) in probs:
            V.violation(f"{PID}|wrapper|{what}|sel={w['cfg']['sel']}", {"kind": "wrapper_case", "case": w, "message": f"df_detrend {w['cfg']}: {what}: {got} vs {exp}"})
    rnd = random.Random(sd + 51)
    specs = [dict(seed=rnd.randrange(2 ** 31), orders=[0, 1, 2, 3, 4, 5], nrms=10, nsteep=6, parseval=(k == 0), long=(k == 1)) for k in range(4 if tier == "quick" else 30)]
    trs = common.pmap(record_td, specs, chunksize=1)
    vd, tres = traces.validate("TimeDomainTrace", f"{PID}_trace", trs)
    V.model(tres, "TimeDomainTrace.tla (orders 3-5, random grids and bands, Parseval contract)")
    V.add("traces_validated_against_impl", len(trs))
    for t, v in zip(trs, vd):
        V.case(t["meta"], True)
        for (l, clause) in v:
            V.violation(f"{PID}|trace|{clause}", {"kind": "td_trace", "spec": t["meta"], "event": l, "message": f"TimeDomainTrace rejected {t['ev'][l-1]}: {clause}"})
    V.sample({"detrend_case": dc[len(dc) // 2], "rms_case": rcases[len(rcases) // 2]})
    V.assumptions += ["the Parseval clause (|rms_spec/rms_time - 1| <= 5 %) is a contract trace on fixed white and pink records (level 'other' for that clause)",
                      "orders 3-5 are checked through normalised inner products and idempotence (2^-30 quanta), not exact values"]
    return V.finish(rule="cases = TimeDomain.tla (series x lengths 1..7 x orders 0..2; grids x all half-integer bands) + DfWrapper detrend table + traces; non-trivial = non-empty band; distinct by content hash")


def replay(payload):
    common.use_repo()
    k = payload["kind"]
    p = detrend_case(payload["case"]) if k == "detrend_case" else rms_case(payload["case"]) if k == "rms_case" else wrapper_case(payload["case"]) if k == "wrapper_case" else [1]
    print(p)
    return 1 if p else 0
