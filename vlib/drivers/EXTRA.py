"""Specification growth beyond the listed properties: configuration decision tables (Config.tla) replayed into the
real SpectrumAnalyzer, compute_single_bin argument validation and core._select_backend.  Not registered in MANIFEST.json
(no listed property); run with ./check EXTRA."""
from __future__ import annotations

import numpy as np

from .. import common, tlc

PID = "EXTRA"


def config_case(case):
    import speckit
    from numpy import kaiser as npk
    from scipy.signal.windows import kaiser as spk
    from speckit.utils import kaiser_alpha, kaiser_rov
    cfg, out = case["cfg"], case["outcome"]
    win = {"kaiser_str": "kaiser", "hann_str": "hann", "hanning_str": "Hanning", "bogus_str": "no_such_window", "np_kaiser": npk, "sp_kaiser": spk,
           "custom_callable": (lambda L: np.ones(int(L))), "not_callable": 3.5}[cfg["win"]]
    psll = None if cfg["psll"] == "none" else 120
    olap = {"default": "default", "half": 0.5, "one": 1.0, "negative": -0.1, "text": "lots"}[cfg["olap"]]
    sched = {"lpsd": "lpsd", "ltf": "ltf", "vectorized_ltf": "vectorized_ltf", "new_ltf": "new_ltf", "bogus": "nope",
             "callable": (lambda **kw: {}), "number": 7}[cfg["sched"]]
    fs = {"pos": 2.0, "zero": 0.0}[cfg["fs"]]
    probs = []
    try:
        a = speckit.SpectrumAnalyzer(np.arange(64.0), fs, win=win, psll=psll, olap=olap, scheduler=sched, order=cfg["order"])
    except (ValueError, TypeError) as exc:
        if out["kind"] != type(exc).__name__:
            probs.append(("wrong_outcome", type(exc).__name__ + ": " + str(exc)[:60], out))
        return probs
    if out["kind"] != "ok":
        return [("accepted_invalid_configuration", "constructed", out)]
    if out["kaiser"] != (a.config["win_func"] is speckit.analysis.np_kaiser):
        probs.append(("window_function", str(a.config["win_func"]), out))
    if out["alpha_set"]:
        if a.config["alpha"] != kaiser_alpha(120):
            probs.append(("alpha", a.config["alpha"], kaiser_alpha(120)))
    elif a.config["alpha"] is not None:
        probs.append(("alpha_should_be_None", a.config["alpha"], None))
    want = 0.5 if out["olap"] == "half" else float(kaiser_rov(kaiser_alpha(120)))
    if abs(a.config["final_olap"] - want) > 1e-15:
        probs.append(("final_olap", a.config["final_olap"], want))
    from speckit import schedulers
    fn = {"lpsd": schedulers.lpsd_plan, "ltf": schedulers.ltf_plan, "vectorized_ltf": schedulers.vectorized_ltf_plan, "new_ltf": schedulers.new_ltf_plan}.get(cfg["sched"])
    if fn is not None and a.config["scheduler_func"] is not fn:
        probs.append(("scheduler_mapping", str(a.config["scheduler_func"]), cfg["sched"]))
    return probs


def single_bin_table():
    import speckit
    a = speckit.SpectrumAnalyzer(np.arange(64.0), 2.0, olap=0.5)
    cases = [(dict(freq=-0.1, L=8), ValueError), (dict(freq=float("nan"), L=8), ValueError), (dict(freq=0.3, L=8, fres=0.1), ValueError),
             (dict(freq=0.3), ValueError), (dict(freq=0.3, L=0), ValueError), (dict(freq=0.3, L=65), ValueError), (dict(freq=0.3, fres=0.0), ValueError),
             (dict(freq=0.3, fres=-1.0), ValueError), (dict(freq=0.3, fres=float("inf")), ValueError), (dict(freq=0.3, L=64), None), (dict(freq=0.0, L=1), None),
             (dict(freq=0.3, fres=100.0), None), (dict(freq=0.3, fres=2.0 / 64), None), (dict(freq=1.5, L=8), None)]
    probs = []
    for kw, exp in cases:
        try:
            r = a.compute_single_bin(**kw)
            got = None
            if r.nf != 1 or int(r.K[0]) != len(r.D[0]):
                probs.append(("single_bin_shape", kw, (r.nf, int(r.K[0]))))
        except Exception as exc:
            got = type(exc)
        if got is not exp:
            probs.append(("single_bin_validation", kw, (got, exp)))
    return probs


def backend_table():
    from speckit import core
    probs = []
    for hint, K, exp in (("numpy", 5, "numpy"), ("numba", 5, "numba"), ("auto", 5, "numba"), ("auto", 5000, "numba" if not core._CUDA_ENABLED else "cuda"), ("anything", 5, "numba")):
        got = core._select_backend(K, hint)
        if got != exp:
            probs.append(("select_backend", (hint, K), (got, exp)))
    if not core._CUDA_ENABLED:
        try:
            core._select_backend(5, "cuda")
            probs.append(("select_backend", "cuda without device", "no error"))
        except RuntimeError:
            pass
    return probs


def peak_case(case):
    """PeakScan.tla's candidate peaks against peak_finder with a threshold that keeps every candidate."""
    import warnings
    from speckit import dsp
    m = np.array(case["m"], dtype=float)
    f = np.arange(1, len(m) + 1, dtype=float)
    try:
        with warnings.catch_warnings():
            warnings.simplefilter("ignore")
            pf, pm = dsp.peak_finder(f, m, cnr=-3000, edge=case["edge"], rtol=1e-9)
    except (RuntimeError, TypeError, ValueError):
        return None                      # the noise-model fit needs more non-peak points than this record has
    got = [int(round(v)) - 1 for v in pf]
    return [] if got == list(case["peaks"]) else [("peaks", got, list(case["peaks"]))]


def resample_case(case):
    import pandas as pd
    from speckit import dsp
    r = lambda p: p[0] / p[1]
    frames = [pd.DataFrame({"time": [r(t) for t in f["t"]], "x": [float(v) for v in f["v"]]}) for f in case["frames"]]
    frames0 = [f.copy(deep=True) for f in frames]
    out = dsp.resample_to_common_grid(frames, r(case["fs"]), suffixes=case["suffixes"])
    probs = []
    if any(not a.equals(b) for a, b in zip(frames, frames0)):
        probs.append(("input_frames_modified", "", ""))
    grid = np.array([r(g) for g in case["grid"]])
    if case["empty"]:
        return probs if (len(out) == 0 and list(out.columns) == ["common_time"]) else probs + [("empty_overlap", list(out.columns), len(out))]
    if len(out) != len(grid) or not np.allclose(out["common_time"].to_numpy(dtype=float), grid, rtol=0, atol=1e-12):
        return probs + [("common_time_grid", out["common_time"].tolist(), grid.tolist())]
    single = len(frames) == 1
    for i, col in enumerate(case["cols"]):
        name = "x" if (single or not case["suffixes"]) else f"x_{i + 1}"
        if (not single) and (not case["suffixes"]) and i > 0:
            continue                     # same name: the first frame's column is kept
        if name not in out:
            probs.append(("column_name", list(out.columns), name))
            continue
        exp = np.array([r(v) for v in col])
        if not np.allclose(out[name].to_numpy(dtype=float), exp, rtol=0, atol=1e-12):
            probs.append(("interpolated_values", out[name].tolist(), exp.tolist()))
    return probs


def dspseq_case(case):
    """DspSeq.tla: crop_data / truncation / frequency2phase case tables."""
    import math
    from speckit import dsp
    cfg, out = case["cfg"], case["outcome"]
    x = np.array(cfg["x"], dtype=float)
    x0 = x.copy()
    probs = []
    try:
        if cfg["fn"] == "crop":
            y = np.arange(cfg["ly"], dtype=float) * 10.0 + 1.0
            gx, gy = dsp.crop_data(x, y, cfg["lo"], cfg["hi"])
            if out["kind"] == "error":
                return [("missing_error", "crop", cfg)]
            idx = [i - 1 for i in out["idx"]]
            if list(gx) != [x[i] for i in idx] or list(gy) != [y[i] for i in idx]:
                probs.append(("crop_values", (list(gx), list(gy)), idx))
        elif cfg["fn"] == "trunc":
            g = dsp.truncation(x, cfg["n"])
            if out["kind"] == "error":
                return [("missing_error", "trunc", cfg)]
            if out["kind"] == "same":
                if g is not x:
                    probs.append(("zero_truncation_is_identity", "copy", "same object"))
            elif list(g) != [x[i - 1] for i in out["idx"]]:
                probs.append(("trunc_values", list(g), out["idx"]))
        else:
            fs = 4.0
            g = dsp.frequency2phase(x, fs, subtract_mean=cfg["m"])
            if out["kind"] == "error":
                return [("missing_error", "f2p", cfg)]
            exp = np.array(out["nsum"], dtype=float) / len(x) * (2 * math.pi / fs)
            if g.shape != exp.shape or not np.allclose(g, exp, rtol=0, atol=1e-12):
                probs.append(("phase_values", list(g), list(exp)))
    except ValueError as exc:
        if out["kind"] != "error":
            probs.append(("unexpected_error", str(exc)[:60], out["kind"]))
    if not np.array_equal(x, x0):
        probs.append(("input_modified", list(x), list(x0)))
    return probs


def planvalidate_case(case):
    """PlanValidate.tla: a custom scheduler returning a plan with one defect; plan() must reject it (ValueError) or the plan must be runnable."""
    import speckit
    cfg, bins, outcome = case["cfg"], case["bins"], case["outcome"]
    n, fs = 8, 1.0
    L = [b["L"] for b in bins]
    plan = {"f": np.array([0.1, 0.2]), "r": np.array([fs / max(l, 1) for l in L]), "b": np.array([0.1 * L[0] / fs, 0.2 * L[1] / fs]),
            "L": np.array(L, dtype=np.int64), "K": np.array([b["K"] for b in bins], dtype=np.int64), "navg": np.array([b["K"] for b in bins], dtype=np.int64),
            "D": [np.array(b["D"], dtype=np.int64) for b in bins], "O": np.zeros(2)}
    d = cfg["defect"]
    if d.startswith("missing_"):
        del plan[d[len("missing_"):]]
    elif d.startswith("short_"):
        k = d[len("short_"):]
        plan[k] = plan[k][:-1]
    elif d == "D_not_a_list":
        plan["D"] = np.zeros((2, 2), dtype=np.int64)
    elif d == "D_short":
        plan["D"] = plan["D"][:1]
    elif d == "D_elem_2d":
        plan["D"][cfg["bin"] - 1] = np.zeros((2, 2), dtype=np.int64)
    x = np.arange(float(n)) % 3.0
    try:
        a = speckit.SpectrumAnalyzer(x, fs, scheduler=lambda **kw: dict(plan), Lmin=cfg["Lmin"], order=0, backend="numpy", win="hann")
        pl = a.plan()
    except (ValueError, TypeError) as exc:
        return [] if outcome == "error" else [("valid_plan_rejected", f"{type(exc).__name__}: {exc}"[:80], outcome)]
    except Exception as exc:
        return [("unexpected_exception", f"{type(exc).__name__}: {exc}"[:80], outcome)]
    if outcome == "error":
        return [("defective_plan_accepted", {k: (v.tolist() if hasattr(v, "tolist") else str(v)) for k, v in pl.items() if k in ("L", "K")}, d)]
    probs = []
    for j in range(int(pl["nf"])):
        st = np.asarray(pl["D"][j])
        if st.size == 0 or st.min() < 0 or st.max() + int(pl["L"][j]) > n or int(pl["K"][j]) != st.size:
            probs.append(("accepted_plan_not_safe_to_run", j, st.tolist()))
    try:
        r = a.compute()
        if r.nf != 2:
            probs.append(("accepted_plan_bins", r.nf, 2))
    except Exception as exc:
        probs.append(("accepted_plan_does_not_run", f"{type(exc).__name__}: {exc}"[:80], ""))
    return probs


def run(tier):
    V = common.Verdict(PID, tier, "model_checking")
    res = tlc.run_model("Config", f"{PID}_config", constants=dict(EmitCases=True), invariants=["AlphaOnlyForKaiser", "Emit"])
    if res.violated:
        raise tlc.TLCError(f"Config.tla violates {res.violated}")
    V.model(res, "Config.tla: configuration decision table")
    cases = res.json_prints()
    for c, probs in zip(cases, common.pmap(config_case, cases, chunksize=64)):
        V.case(c["cfg"], True)
        for (what, got, exp) in probs:
            V.violation(f"{PID}|config|{what}|{c['cfg']['win']}|{c['cfg']['olap']}|{c['cfg']['sched']}", {"kind": "config", "case": c, "message": f"{what}: {c['cfg']}: got {got}, table says {exp}"})
    for (what, a, b) in single_bin_table() + backend_table():
        V.violation(f"{PID}|table|{what}", {"kind": "table", "message": f"{what}: {a}: {b}"})
    rp = tlc.run_model("PeakScan", f"{PID}_peaks", constants=dict(MaxLenP=6 if tier == "quick" else 7, Vals=tlc.Raw("{1,2,3}"), EmitCases=True),
                       invariants=["ReportedAreMaxima", "SharpPeaksFound", "Increasing", "NoEdgeWithoutFlag", "Emit"])
    if rp.violated:
        raise tlc.TLCError(f"PeakScan.tla violates {rp.violated}")
    V.model(rp, "PeakScan.tla: candidate-peak scan of peak_finder (sharp peaks, plateaus, edges)")
    pcs = rp.json_prints()
    skipped = 0
    for c, probs in zip(pcs, common.pmap(peak_case, pcs, chunksize=64)):
        if probs is None:
            skipped += 1
            continue
        V.case(c, bool(c["peaks"]))
        for (what, got, exp) in probs:
            V.violation(f"{PID}|peak_finder|{what}|edge={c['edge']}", {"kind": "peak", "case": c, "message": f"peak_finder({c['m']}, edge={c['edge']}): peaks at {got}, model {exp}"})
    V.set("peak_cases_skipped_fit_impossible", skipped)
    rr = tlc.run_model("Resample", f"{PID}_resample", constants=dict(EmitCases=True), invariants=["GridInsideOverlap", "GridIsMaximal", "Emit"])
    if rr.violated:
        raise tlc.TLCError(f"Resample.tla violates {rr.violated}")
    V.model(rr, "Resample.tla: common-grid logic of resample_to_common_grid")
    rcs = rr.json_prints()
    for c, probs in zip(rcs, common.pmap(resample_case, rcs, chunksize=16)):
        V.case(c, not c["empty"])
        for (what, got, exp) in probs:
            V.violation(f"{PID}|resample|{what}|frames={len(c['frames'])}", {"kind": "resample", "case": c, "message": f"resample_to_common_grid: {what}: {got} vs {exp} for {c['frames']} fs={c['fs']}"})
    rv = tlc.run_model("PlanValidate", f"{PID}_planvalidate", constants=dict(N=8, EmitCases=True),
                       invariants=["SafeToRun", "EveryDefectRejected", "CleanPlanAccepted", "Emit"])
    if rv.violated:
        raise tlc.TLCError(f"PlanValidate.tla violates {rv.violated}")
    V.model(rv, "PlanValidate.tla: plan() validation of scheduler output (the gate in front of the unchecked Numba kernels)")
    vcs = rv.json_prints()
    for c, probs in zip(vcs, common.pmap(planvalidate_case, vcs, chunksize=16)):
        V.case(c["cfg"], c["outcome"] == "error")
        for (what, got, exp) in probs:
            V.violation(f"{PID}|planvalidate|{what}|{c['cfg']['defect']}", {"kind": "planvalidate", "case": c, "message": f"{c['cfg']}: {what}: {got} ({exp})"})
    rd = tlc.run_model("DspSeq", f"{PID}_dspseq", constants=dict(MaxLen=3 if tier == "quick" else 4, Vals=tlc.Raw("{-1, 0, 2}"), EmitCases=True),
                       invariants=["CropKeepsOrderAndOnlyInRange", "TruncIsSymmetric", "MeanFreePhaseReturnsToZero", "Emit"])
    if rd.violated:
        raise tlc.TLCError(f"DspSeq.tla violates {rd.violated}")
    V.model(rd, "DspSeq.tla: crop_data, truncation, frequency2phase case tables")
    dcs = rd.json_prints()
    for c, probs in zip(dcs, common.pmap(dspseq_case, dcs, chunksize=128)):
        V.case(c["cfg"], c["outcome"]["kind"] != "error")
        for (what, got, exp) in probs:
            V.violation(f"{PID}|dspseq|{c['cfg']['fn']}|{what}", {"kind": "dspseq", "case": c, "message": f"{c['cfg']}: {what}: got {got}, model {exp}"})
    re_ = tlc.run_model("ExactCheck", f"{PID}_exact", constants=dict(Range=16 if tier == "quick" else 24),
                        invariants=["CmpFracIsCrossMultiplication", "CmpFracScaled", "MulQ20Exact", "MulQ20Close", "RoundingOps", "RationalOps"])
    if re_.violated:
        raise tlc.TLCError(f"ExactCheck.tla violates {re_.violated}: an arithmetic helper of the trusted base is wrong")
    V.model(re_, "ExactCheck.tla: CmpFrac, MulQ20, rounding and rational helpers against their definitions")
    V.sample({"case": cases[0]})
    rc = V.finish(rule="every row of Config.tla's decision table + fixed validation tables")
    # not a listed property: keep its evidence out of /verif/evidence
    src = common.EVIDENCE / f"{PID}.json"
    if src.exists():
        (common.WORK / "evidence_extra").mkdir(parents=True, exist_ok=True)
        src.replace(common.WORK / "evidence_extra" / f"{PID}.json")
    return rc


def replay(payload):
    common.use_repo()
    if payload["kind"] == "config":
        p = config_case(payload["case"])
        print(p)
        return 1 if p else 0
    print(single_bin_table(), backend_table())
    return 1
