"""Shared driver of C02, C03, C04 (schedulers).  Each property reports only its own clauses."""
from __future__ import annotations

import random

from .. import common, sched, tlc, traces
from ..tlc import Raw

SEG_INV = ["PlacementIsSafe", "SingleNeedsWholeRecord", "UncappedFailsIffOverCap"]


def regime_of(t, l):
    """Discriminating input class of a rejected event (part of the finding signature)."""
    m = t["meta"]
    ev = t["ev"][l - 1] if 0 < l <= len(t["ev"]) else {}
    parts = []
    if ev.get("t") == "bin":
        c = t["c"]
        if ev.get("qb") == round(4096 * c["bn"] / c["bd"]) and c["sched"] == "new":
            parts.append("bmin_branch")
        if ev.get("K") == 1:
            parts.append("K=1")
    if ev.get("t") == "count":
        parts.append("Jdes<=4" if m["Jdes"] <= 4 else "Jdes>=5")
    if ev.get("t") == "built":
        exc = m.get("scheduler_exception") or m.get("analyzer_exception") or m.get("recorder_exception") or ""
        parts.append(exc.split(":")[0] or "no_exception")
    return "+".join(parts) if parts else "-"


def run(pid: str, tier: str, with_search: bool = False) -> int:
    V = common.Verdict(pid, tier, "model_checking")
    sd = common.seed()

    # 1. placement theorems
    nmax = 48 if tier == "quick" else 128
    res = tlc.run_model("Segmentation", f"{pid}_seg",
                        constants={"SegNs": Raw(f"8..{nmax}"),
                                   "SegXovs": Raw("{<<1,1>>,<<3,4>>,<<1,2>>,<<1,4>>,<<1,8>>,<<1,32>>,<<2,3>>,<<7,10>>}")},
                        invariants=SEG_INV)
    if res.violated:
        raise tlc.TLCError(f"Segmentation.tla violates {res.violated}")
    V.model(res, "Segmentation.tla (placement theorems over all N, L, K-choices)")

    # 1b. the same placement lemma for UNBOUNDED N, L, K, i (Apalache, SMT); without the cap it must fail
    if pid in ("C02", "C04"):
        apa = tlc.SPEC_DIR / "apalache"
        o1, w1 = tlc.run_apalache(apa / "SegPlacement.tla", "Lemma", f"{pid}_segplacement")
        o2, w2 = tlc.run_apalache(apa / "SegPlacementNoCap.tla", "Lemma", f"{pid}_segplacement_nocap")
        if o1 != "ok" or o2 != "violated":
            raise tlc.TLCError(f"Apalache: placement lemma {o1} (expected ok), without the cap {o2} (expected violated)")
        V.set("apalache_unbounded_placement_lemma", {"with_cap": o1, "without_cap": o2, "wall_s": round(w1 + w2, 1)})

    # 2. exact LTF/LPSD model, invariants + plans for replay
    res = tlc.run_model("Sched", f"{pid}_sched", constants=sched.model_constants(tier),
                        invariants=sched.SCHED_INVARIANTS, timeout=3600)
    if res.violated:
        raise tlc.TLCError(f"Sched.tla (repaired scheduler, CapK) violates its invariant {res.violated}")
    V.model(res, "Sched.tla exact rational LTF/LPSD loop, CapK=TRUE")
    plans = res.json_prints()
    groups = {}
    for pj in plans:
        groups.setdefault(sched.cfg_key(pj), []).append(pj)
    items = list(groups.items())
    rr = common.pmap(sched.replay_group, items, chunksize=32)
    own = {"C02": ("raises", "nf", "K", "navg"), "C03": ("f",), "C04": ("L", "K", "navg", "nf")}[pid]
    for (key, variants), out in zip(items, rr):
        V.case({"cfg": key}, True)
        for s, field, detail in out:
            if field in own:
                V.violation(f"{pid}|replay|{s}|plan_differs_from_model|{field}",
                            {"kind": "sched_replay", "cfg": key, "sched": s, "field": field, "detail": detail,
                             "message": f"{s}_plan for (N, olap, bmin, Lmin, Jdes, Kdes)={key} differs from every Sched.tla behaviour in field {field}"})
    V.set("model_plans", len(plans))
    nuncl = sum(pj.get("unclamped", 0) for pj in plans)
    V.set("model_bins_in_log_spaced_regime", nuncl)
    if pid == "C04" and nuncl == 0:
        raise tlc.TLCError("Sched.tla: no bin of any behaviour is in the unclamped log-spaced regime (LogSpaced would be vacuous)")
    V.set("model_configurations_replayed", len(items))
    if items:
        k0, v0 = items[len(items) // 2]
        V.sample({"model_plan": {"cfg": v0[0]["cfg"], "f_over_fden": v0[0]["f"], "L": v0[0]["L"], "K": v0[0]["K"]}})

    # 2a. liveness: every fair behaviour of the scheduler loop terminates (TLC temporal check on a smaller scope)
    lc = dict(sched.model_constants(tier), EmitPlans=False, SNs=Raw("8..10"), Jdess=Raw("{0,1,2}"))
    rl = tlc.run_model("Sched", f"{pid}_sched_live", constants=lc, properties=["Terminates"], spec="FairSpec", timeout=3600)
    if rl.violated:
        raise tlc.TLCError(f"Sched.tla: the scheduler loop does not terminate on some fair behaviour: {rl.violated}")
    V.model(rl, "Sched.tla FairSpec => <>(pc = done)  (termination of the loop)")

    # 2b. new_ltf: whatever its three stages propose, the constraint section makes the structural clauses hold
    nlc = {"NNs": Raw("8..12" if tier == "quick" else "8..14"), "NOlaps": Raw("{<<0,1>>,<<1,2>>,<<3,4>>,<<31,32>>}"),
           "NBmins": Raw("{<<1,1>>,<<3,2>>,<<7,2>>}"), "NLminsOf(n)": Raw("{1,2,5,n-1,n}"), "FDen": sched.lcm_upto(12 if tier == "quick" else 14) * 2}
    ninv = ["LengthBounds", "SingleUsesRecord", "CountIsNearestCapped", "DftConstraint", "BinNumberFloor", "BelowNyquist"]
    r_orig = tlc.run_model("NewLtf", f"{pid}_newltf_original", constants=dict(nlc, BminBranch="original"), invariants=ninv)
    if "DftConstraint" not in r_orig.violated:
        raise tlc.TLCError("NewLtf.tla with the original bmin branch should violate DftConstraint (vacuity guard)")
    r_new = tlc.run_model("NewLtf", f"{pid}_newltf", constants=dict(nlc, BminBranch="repaired"), invariants=ninv)
    if r_new.violated:
        raise tlc.TLCError(f"NewLtf.tla (repaired bmin branch) violates {r_new.violated}")
    V.model(r_new, "NewLtf.tla: constraint section of new_ltf_plan under arbitrary stage proposals")

    # 3. recorded plans of all four schedulers + analyzer.plan()
    cfgs = sched.grid_configs(tier, sd)
    trs = common.pmap(sched.record_plan, cfgs, chunksize=32)
    if with_search:
        rnd = random.Random(sd + 5)
        cc = [c for c in cfgs if c["sched"] == "ltf" or c["sched"] == "vectorized"]
        cc = rnd.sample(cc, min(len(cc), 600 if tier == "quick" else 6000))
        trs += [t for t in common.pmap(sched.record_count, cc, chunksize=32) if t["ev"]]
    verdicts, tres = traces.validate("SchedTrace", f"{pid}_trace", trs, timeout=3600)
    V.model(tres, "SchedTrace.tla (recorded plans)")
    V.add("traces_validated_against_impl", len(trs))
    nlog = 0
    for t, vd in zip(trs, verdicts):
        V.case(t["meta"], len(t["ev"]) > 1)
        nlog += t["c"].get("logsp", 0)
        for (l, clause) in vd:
            if not traces.belongs(clause, pid):
                continue
            s = "count" if t["c"].get("sched") == "count" else t["meta"]["sched"]
            V.violation(f"{pid}|trace|{s}|{clause}|{regime_of(t, l)}",
                        {"kind": "sched_trace", "cfg": t["meta"], "event": l, "clause": clause,
                         "event_record": t["ev"][l - 1], "constants": t["c"],
                         "message": f"SchedTrace rejected bin/event {l} of {s} plan {t['meta']}: {clause}: {t['ev'][l - 1]}"})
    V.set("plans_with_log_spacing_clause", nlog)
    V.set("recorded_bins_in_log_spaced_regime", sum(t["meta"].get("unclamped_bins", 0) for t in trs))
    V.sample({"recorded_plan": {"cfg": trs[0]["meta"], "constants": trs[0]["c"], "first_events": trs[0]["ev"][:2]}})

    if with_search:
        from . import _jdes
        _jdes.run(V, tier, sd, pid)

    V.assumptions += [
        "Sched.tla is instantiated where c=(N/2)^(1/Jdes)-1 is rational (all N for Jdes=1, N=2*m^Jdes otherwise); irrational c is covered by the recorded plans only",
        "frequencies of recorded plans are quantised to 2^-12 bins; ulp distances (r*L vs fs, stepping, bin number) are measured by the recorder",
        "start vectors longer than N=256 are validated through the recorder's projection (first, last, min difference, max deviation from the ideal position)",
        "log-spacing clause evaluated for N<=512 (32-bit arithmetic) on bins strictly inside the unclamped regime (2^-8 margin)",
    ]
    return V.finish(rule="configurations = grid + VERIF_SEED-random admissible (N, olap, bmin, Lmin, Jdes, Kdes, scheduler); non-trivial = plan has at least one bin; distinct by configuration hash")


def replay(payload) -> int:
    kind = payload.get("kind")
    if kind == "sched_trace":
        t = sched.record_plan(payload["cfg"])
        vd, _ = traces.validate("SchedTrace", "sched_replay", [t])
        print(t["meta"])
        print(vd[0])
        return 1 if any(traces.belongs(c, payload["property"]) for _, c in vd[0]) else 0
    if kind == "sched_replay":
        print("re-run the check to regenerate the model's plans; configuration:", payload["cfg"])
        return 1
    if kind and kind.startswith("jdes"):
        from . import _jdes
        return _jdes.replay(payload)
    return 2
