"""C01 - per-bin statistics equal the windowed-DFT definition on every backend.

1. Kernel.tla is model-checked (lattice scope): the Goertzel state machine equals the definition in
   every finished call, the loop invariant holds in every intermediate state (Grain = "sample").
2. Every finished call of the model is replayed into the real Numba kernels, the NumPy fallbacks
   (default chunking and _chunk=1, so that chunk boundaries fall inside K), the CUDA host wrappers
   under Numba's CUDA simulator, and the two reducers; all five statistics are compared with the
   exact expectation, including the sign of mu_i.
3. Float records at scale are executed on all backends plus a direct evaluation of the definition;
   KernelTrace.tla validates the quantised observations (agreement, diagonal auto, scatter laws).
"""
from __future__ import annotations

import math
import os
import random

import numpy as np

from .. import common, kernelcases as kc, tlc, traces

PID = "C01"


# --------------------------------------------------------------------------- replay (spec -> code)
def replay_case(case):
    """Runs in a worker.  Returns a list of (backend, classification, got, fields)."""
    from speckit import core
    exp = kc.expected(case)
    tol = kc.tolerances(exp)
    name = kc.kernel_name(case["order"], case["mode"])
    out = []
    runs = [("numba", core, name, {}), ("numpy", core, name + "_np", {})]
    if len(case["D"]) >= 2:
        runs.append(("numpy_chunk1", core, name + "_np", {"_chunk": 1}))
    for label, mod, fn, kw in runs:
        try:
            got = kc.call_kernel(mod, fn, case, **kw)
        except Exception as exc:  # a kernel that raises on in-range arguments violates C01 as well
            out.append((label, f"raises={type(exc).__name__}", None, []))
            continue
        bad = kc.compare(got, exp, tol)
        if bad:
            out.append((label, kc.classify(bad, got, exp, tol), got, bad))
    # the reducers on the model's per-segment products
    sl = case.get("slots")
    if sl:
        S2 = float(case["scale"]) ** 2
        sw = kc.sinw(case["c2"])
        xx = np.array([s[0] / S2 for s in sl])
        yy = np.array([s[1] / S2 for s in sl])
        xyr = np.array([s[2] / (2 * S2) for s in sl])
        xyi = np.array([s[3] * sw / S2 for s in sl])
        for label, fn in (("reduce_py", core._reduce_stats), ("reduce_nb", core._reduce_stats_nb)):
            got = tuple(float(v) for v in fn(xx, yy, xyr, xyi))
            bad = kc.compare(got, exp, tol)
            if bad:
                out.append((label, kc.classify(bad, got, exp, tol), got, bad))
    return out


def replay_case_cuda(case):
    from speckit import core
    if not core._CUDA_ENABLED:
        return [("cuda", "simulator_unavailable", None, [])]
    from speckit import core_cuda
    exp = kc.expected(case)
    tol = kc.tolerances(exp)
    name = kc.kernel_name(case["order"], case["mode"]) + "_cuda"
    try:
        got = kc.call_kernel(core_cuda, name, case)
    except Exception as exc:
        return [("cuda", f"raises={type(exc).__name__}", None, [])]
    bad = kc.compare(got, exp, tol)
    return [("cuda", kc.classify(bad, got, exp, tol), got, bad)] if bad else []


# --------------------------------------------------------------------------- traces (code -> spec)
def _definition(x, y, starts, L, w, om, order, mode):
    """Direct evaluation of the property's definition (longdouble accumulation)."""
    n = np.arange(L)
    ld = np.longdouble
    c = np.cos(ld(om) * n.astype(ld))
    s = np.sin(ld(om) * n.astype(ld))

    def seg_X(rec, st):
        seg = rec[st:st + L].astype(np.float64)
        if order >= 0:
            p = min(order, L - 1)
            t = np.linspace(-1.0, 1.0, L) if L > 1 else np.zeros(1)
            V = np.vander(t, p + 1, increasing=True)
            coef, *_ = np.linalg.lstsq(V, seg, rcond=None)
            seg = seg - V @ coef
        v = (seg * w).astype(ld)
        return complex(float(np.sum(v * c)), float(-np.sum(v * s)))

    X = np.array([seg_X(x, st) for st in starts])
    Y = X if mode == "auto" else np.array([seg_X(y, st) for st in starts])
    Z = X * np.conj(Y)
    K = len(starts)
    mu = Z.mean()
    m2 = float(np.mean(np.abs(Z - mu) ** 2)) if K >= 2 else 0.0
    return (float(np.mean(np.abs(X) ** 2)), float(np.mean(np.abs(Y) ** 2)), mu.real, mu.imag, m2)


def record_scale_trace(spec):
    """Runs in a worker: execute one argument tuple on every backend, return the quantised trace."""
    from speckit import core
    from scipy.signal import windows as spw
    rng = np.random.default_rng(spec["seed"])
    N, L, K, order, mode = spec["N"], spec["L"], spec["K"], spec["order"], spec["mode"]
    kind = spec["data"]
    t = np.arange(N)
    if kind == "white":
        x = rng.standard_normal(N)
        y = 0.5 * x + rng.standard_normal(N)
    elif kind == "trend":
        x = rng.standard_normal(N) + 3.0 + 0.01 * t
        y = np.roll(x, 3) + 0.3 * rng.standard_normal(N) - 1e-5 * t * t
    elif kind == "hugeoffset":   # a constant offset 1e12 times the fluctuations: mean removal must happen before the projection
        x = 1e9 + 1e-3 * rng.standard_normal(N)
        y = -5e8 + 1e-3 * (0.5 * (x - 1e9) / 1e-3 + rng.standard_normal(N))
    elif kind == "line":  # coherent line at the analysis frequency far above a tiny noise floor: large mean, tiny scatter
        om0 = spec["omega"]
        x = np.cos(om0 * t + 0.3) + 1e-7 * rng.standard_normal(N)
        y = 0.5 * np.cos(om0 * t - 1.1) + 1e-7 * rng.standard_normal(N)
    else:  # sine + noise
        x = np.sin(0.37 * t + 1.0) + 0.1 * rng.standard_normal(N)
        y = 0.7 * np.sin(0.37 * t + 0.2) + 0.1 * rng.standard_normal(N)
    unit = float(spec.get("unit", 1.0))     # physical unit of the samples: the statement and the rounding budget are scale free
    if unit != 1.0:
        x, y = x * unit, y * unit
    starts = rng.integers(0, N - L + 1, size=K).astype(np.int64)      # unsorted, repeats allowed
    if spec.get("starts") == "near_regular" and K >= 4 and N - L >= K:
        # evenly spaced first/second/last entries, jittered interior: shortcuts that only look at the ends must not fire
        d = (N - L) // (K - 1)
        starts = (np.arange(K) * d).astype(np.int64)
        if d >= 2:
            j = rng.integers(2, K - 1, size=max(1, K // 4))
            starts[j] += rng.integers(-(d // 2), d // 2 + 1, size=j.size)
            starts = np.clip(starts, 0, N - L)
    wname = spec["win"]
    if kind == "hugeoffset":
        w = np.kaiser(L + 1, 25.4)[:-1]          # 200 dB side lobes: the rounding error of the removed mean (a DC term) cannot leak
    elif wname == "kaiser":
        w = np.kaiser(L + 1, 10.0)[:-1]
    elif wname == "hann":
        w = np.hanning(L) if L > 2 else np.ones(L)
    elif wname == "gated":            # a Hann window with exact zeros at interior samples (gated / two-lobe windows): still a real window
        w = np.hanning(L) if L > 2 else np.ones(L)
        w[L // 3: L // 3 + max(1, L // 16)] = 0.0
    elif wname == "rect":
        w = np.ones(L)
    else:
        w = np.asarray(getattr(spw, wname)(L, sym=False), dtype=float)
    w = np.ascontiguousarray(w, dtype=np.float64)
    om = spec["omega"]
    name = kc.kernel_name(order, mode)
    args = [x] if mode == "auto" else [x, y]
    args += [starts, L, w, om]
    if order >= 1:
        args.append(core._build_Q(L, order))
    ref = _definition(x, y, starts, L, w, om, order, mode)
    xm = x - x.mean() if (order >= 0 and kind == "hugeoffset") else x          # what the recurrence actually sees
    ym = y - y.mean() if (order >= 0 and kind == "hugeoffset") else y
    bx = float(np.sum(np.abs(w))) * float(np.max(np.abs(xm)))
    by = bx if mode == "auto" else float(np.sum(np.abs(w))) * float(np.max(np.abs(ym)))
    s = max(ref[0], ref[1])
    # rounding budget of the recurrence, in quanta (see DESIGN.md C01)
    if not (s > 1e-20 * max(bx * by, 1e-300)):
        # the definition's power is pure rounding noise (e.g. a trend annihilated exactly): nothing to compare
        return {"meta": dict(spec), "c": {"budget": 10 ** 6}, "ev": []}
    budget = int(min(10 ** 6, math.ceil(2 ** 20 * 2.0 * bx * by * 8 * 2.2e-16 * L * L / s)))
    runs = [("definition", ref)]
    if mode == "csd":
        # the auto-spectral kernels of both backends at the very same (L, starts, window, omega) first: nothing computed for
        # one kind of call may leak into the next
        aname = kc.kernel_name(order, "auto")
        aargs = [x, starts, L, w, om] + ([args[-1]] if order >= 1 else [])
        getattr(core, aname + "_np")(*aargs)
        getattr(core, aname)(*aargs)
    # decoy calls of the very kernels under test with the same L but another window, another frequency (the opposite sign of omega
    # included), other starts and the channels exchanged: a kernel is a function of its arguments, nothing may be remembered per L
    w_decoy = np.ascontiguousarray(w[::-1] * 0.5 + 0.25)
    dargs = ([y] if mode == "auto" else [y, x]) + [np.ascontiguousarray(starts[::-1]), L, w_decoy]
    for om_d in (-om, om + 0.125):
        dfull = dargs + [om_d] + ([args[-1]] if order >= 1 else [])
        getattr(core, name)(*dfull)
        getattr(core, name + "_np")(*dfull)
    runs.append(("numba", tuple(float(v) for v in getattr(core, name)(*args))))
    runs.append(("numpy", tuple(float(v) for v in getattr(core, name + "_np")(*args))))
    if K >= 2:
        runs.append(("numpy_chunked", tuple(float(v) for v in getattr(core, name + "_np")(*args, _chunk=max(1, K // 3)))))
    if spec.get("cuda") and core._CUDA_ENABLED:
        from speckit import core_cuda
        runs.append(("cuda", tuple(float(v) for v in getattr(core_cuda, name + "_cuda")(*args))))
    ev = []
    # the scatter relative to the definition's own scatter, where the two-pass reduction is well conditioned
    m2d = ref[4]
    relok = K >= 2 and m2d > 0 and math.sqrt(m2d) >= 1e-9 * s
    for b, g in runs:
        ev.append({"b": b, "mode": mode, "K": K, "m2r": (traces.q(g[4] / m2d) if relok else -1),
                   "q": [traces.q(g[0] / s), traces.q(g[1] / s), traces.q(g[2] / s), traces.q(g[3] / s),
                         traces.q(g[4] / (s * s))]})
    return {"meta": dict(spec), "c": {"budget": budget}, "ev": ev}


def record_fres_trace(spec):
    """A single-bin analysis requested by resolution (fs/fres not an integer): the statistics the bin is built from against the
    definition evaluated at the REQUESTED frequency with the segmentation the result reports."""
    import speckit
    rng = np.random.default_rng(spec["seed"])
    N, order, mode, backend = spec["N"], spec["order"], spec["mode"], spec["backend"]
    x = rng.standard_normal(N)
    y = 0.5 * x + rng.standard_normal(N)
    fs = spec["fs"]
    freq = spec["fbin"] * fs / spec["Lreq"]
    data = x if mode == "auto" else np.vstack([x, y])
    a = speckit.SpectrumAnalyzer(data, fs, order=order, win="hann", olap=0.5, backend=backend)
    r = a.compute_single_bin(freq, fres=fs / (spec["Lreq"] + spec["delta"]))
    L = int(r.L[0])
    starts = np.asarray(r.D[0], dtype=np.int64)
    w = np.ascontiguousarray(np.hanning(L), dtype=np.float64)
    om = 2.0 * math.pi * freq / fs
    ref = _definition(x, y, starts, L, w, om, order, mode)
    got = (float(r.XX[0]), float(r.YY[0]) if mode == "csd" else float(r.XX[0]), float(np.real(r.XY[0])), float(np.imag(r.XY[0])) if mode == "csd" else 0.0, float(r.M2[0]))
    if mode == "auto":
        got = (got[0], got[0], got[0], 0.0, got[4])
    s_ = max(ref[0], ref[1])
    bx = float(np.sum(np.abs(w))) * float(np.max(np.abs(x)))
    by = bx if mode == "auto" else float(np.sum(np.abs(w))) * float(np.max(np.abs(y)))
    budget = int(min(10 ** 6, math.ceil(2 ** 20 * 2.0 * bx * by * 8 * 2.2e-16 * L * L / s_)))
    K = int(starts.size)
    ev = [{"b": b, "mode": mode, "K": K, "m2r": -1, "q": [traces.q(g[0] / s_), traces.q(g[1] / s_), traces.q(g[2] / s_), traces.q(g[3] / s_), traces.q(g[4] / (s_ * s_))]}
          for b, g in (("definition", ref), ("single_bin_by_resolution_" + backend, got))]
    return {"meta": dict(spec, K=K, L=L), "c": {"budget": budget}, "ev": ev}


def scale_specs(tier, seed):
    rnd = random.Random(1000 + seed)
    n = 160 if tier == "quick" else 1500
    wins = ["kaiser", "hann", "rect", "flattop", "nuttall", "gated"]
    specs = []
    # segment counts just above the NumPy kernels' internal block sizes (8192 / 16384 / 32768), not multiples of them,
    # and start indices beyond 2^17: block-wise reductions and index arithmetic must not depend on the block layout
    for (K, order, mode) in ((8192 + 809, 2, "csd"), (16384 + 1201, 1, "auto"), (32768 + 333, 0, "csd"), (32768 + 77, -1, "auto")):
        specs.append(dict(seed=rnd.randrange(2 ** 31), N=140000, L=rnd.choice([8, 12, 16]), K=K, order=order, mode=mode, data="white",
                          win="hann", omega=0.9 + 0.3 * rnd.random(), cuda=False, starts="random"))
    for (L, mode) in ((2048, "csd"), (2304, "csd"), (2048, "auto")):          # long segments
        specs.append(dict(seed=rnd.randrange(2 ** 31), N=4096, L=L, K=3, order=rnd.choice([-1, 0]), mode=mode, data="white", win="hann",
                          omega=0.5 + rnd.random(), cuda=False, starts="random"))
    for (L, order, mode) in ((5000, 2, "csd"), (4608, 1, "auto"), (8192, 2, "auto")):   # segments beyond 4096 samples with polynomial detrending
        specs.append(dict(seed=rnd.randrange(2 ** 31), N=12000, L=L, K=2, order=order, mode=mode, data="sine", win="hann",
                          omega=0.5 + rnd.random(), cuda=False, starts="random"))
    for k in range(6):                                                         # huge constant offset, order 0 only (see DESIGN 9.4)
        specs.append(dict(seed=rnd.randrange(2 ** 31), N=4096, L=rnd.choice([256, 600, 1000]), K=rnd.choice([1, 3, 9]), order=0, mode=["auto", "csd"][k % 2],
                          data="hugeoffset", win="kaiser", omega=0.3 + 2.5 * rnd.random(), cuda=False, starts="random"))
    for i in range(n):
        N = rnd.choice([256, 1000, 4096])
        L = rnd.choice([1, 2, 3, 7, 16, 33, 100, 255, N // 4, N // 2, N]) if i % 3 else rnd.randint(1, min(N, 1500))
        L = max(1, min(L, N, 1500))
        K = rnd.choice([1, 1, 2, 3, 5, 17, 64])
        frac = rnd.random()
        om = rnd.choice([math.pi * frac, math.pi * frac, 2 * math.pi * rnd.randint(0, L // 2) / L, math.pi * frac * 0.01,
                         rnd.choice([0.0, math.pi, math.pi * (1 - 0.01 * frac)])])
        specs.append(dict(seed=rnd.randrange(2 ** 31), N=N, L=L, K=K, order=rnd.choice([-1, 0, 1, 2]),
                          mode=rnd.choice(["auto", "csd"]), data=rnd.choice(["white", "trend", "sine", "line"]),
                          win=rnd.choice(wins if L >= 8 else ["rect", "hann", "kaiser"]), omega=om,
                          cuda=(i % (8 if tier == "quick" else 6) == 0), starts=("near_regular" if i % 3 == 1 else "random"),
                          unit=(2.0 ** -80 if i % 7 == 3 else 2.0 ** 40 if i % 7 == 5 else 1.0)))
    return specs


# --------------------------------------------------------------------------- main
def model_constants(tier):
    c = dict(kc.KERNEL_CONSTANTS_SMALL)
    if tier == "thorough":
        c.update(Ns={5}, Kmax=3)          # every start vector of length <= 3 (a second thorough run widens the data: see run())
    return c


def run(tier: str) -> int:
    V = common.Verdict(PID, tier, "model_checking")
    sd = common.seed()
    # 1. the model, whole-call grain, emitting cases
    res = tlc.run_model("Kernel", f"{PID}_model", constants=model_constants(tier),
                        invariants=kc.KERNEL_INVARIANTS, timeout=7200, coverage=False)
    if res.violated:
        raise tlc.TLCError(f"Kernel.tla violates its own invariant {res.violated}: the model is wrong, not the code")
    V.model(res, "Kernel.tla grain=segment (emits cases)")
    cases = res.json_prints()
    if not cases:
        raise tlc.TLCError("Kernel model emitted no cases")
    if tier == "thorough":
        resb = tlc.run_model("Kernel", f"{PID}_model_full", constants=dict(kc.KERNEL_CONSTANTS_SMALL, Ns={6}, Ls={1, 2, 3, 4, 5}, Kmax=2, DataSet="full"),
                             invariants=kc.KERNEL_INVARIANTS, timeout=14400)
        if resb.violated:
            raise tlc.TLCError(f"Kernel.tla (full data set) violates {resb.violated}")
        V.model(resb, "Kernel.tla grain=segment, N=6, full data set (all signed impulses, all impulse pairs, dense pairs)")
        cases += resb.json_prints()
        resb = None
    # 2. per-sample grain: the loop invariant in every intermediate state
    c2 = dict(model_constants("quick"), Grain="sample", EmitCases=False, Ns={4}, Ls={1, 2, 3, 4}, Wins={"asym"})
    if tier == "thorough":
        c2.update(Ns={5}, Ls={1, 2, 3, 4, 5}, Wins={"asym", "ramp"})
    res2 = tlc.run_model("Kernel", f"{PID}_loopinv", constants=c2, invariants=kc.KERNEL_INVARIANTS[:-1], timeout=7200)
    if res2.violated:
        raise tlc.TLCError(f"Kernel.tla (sample grain) violates {res2.violated}")
    V.model(res2, "Kernel.tla grain=sample (Goertzel loop invariant in every state)")

    # 3. replay into numba / numpy / reducers
    results = common.pmap(replay_case, cases, chunksize=256)
    nz = 0
    for case, out in zip(cases, results):
        e = case["exp"]
        nontrivial = (e["xx"] != 0 or e["yy"] != 0)
        nz += nontrivial
        V.case({k: case[k] for k in ("x", "y", "L", "D", "win", "c2", "order", "mode")}, nontrivial)
        for label, cls, got, bad in out:
            sig = f"{PID}|replay|{label}|{case['mode']}|{cls}"
            V.violation(sig, {"kind": "kernel_case", "backend": label, "case": case, "got": got, "fields": bad,
                              "message": f"{label} {kc.kernel_name(case['order'], case['mode'])} returned {got}, "
                                         f"exact expectation {kc.expected(case)}"})
    V.sample({"case": {k: cases[len(cases) // 2][k] for k in ("x", "y", "L", "D", "win", "c2", "order", "mode", "exp")},
              "expected_floats": kc.expected(cases[len(cases) // 2])})
    V.set("replayed_cases", len(cases))
    V.set("replayed_backends", ["numba", "numpy", "numpy(_chunk=1)", "_reduce_stats", "_reduce_stats_nb", "cuda(simulator)"])

    # 4. CUDA simulator on a sub-sample (slow: python threads)
    ncuda = 320 if tier == "quick" else 6000
    rnd = random.Random(sd)
    sub = rnd.sample(cases, min(ncuda, len(cases)))
    os.environ["NUMBA_ENABLE_CUDASIM"] = "1"
    try:
        cres = common.pmap(replay_case_cuda, sub, chunksize=8)
    finally:
        os.environ.pop("NUMBA_ENABLE_CUDASIM", None)
    unavailable = 0
    for case, out in zip(sub, cres):
        for label, cls, got, bad in out:
            if cls == "simulator_unavailable":
                unavailable += 1
                continue
            V.violation(f"{PID}|replay|cuda|{case['mode']}|{cls}",
                        {"kind": "kernel_case", "backend": "cuda", "case": case, "got": got, "fields": bad,
                         "message": f"cuda(sim) returned {got}, exact expectation {kc.expected(case)}"})
    if unavailable:
        raise tlc.TLCError("numba CUDA simulator not available in workers")
    V.set("cuda_sim_cases", len(sub))

    # 5. traces at scale
    specs = scale_specs(tier, sd)
    os.environ["NUMBA_ENABLE_CUDASIM"] = "1"
    try:
        trs = common.pmap(record_scale_trace, specs, chunksize=4)
    finally:
        os.environ.pop("NUMBA_ENABLE_CUDASIM", None)
    # single-bin requests by resolution (the analysis frequency is the requested one, whatever bin number is reported)
    rndf = random.Random(sd + 77)
    fspecs = [dict(seed=rndf.randrange(2 ** 31), N=rndf.choice([3000, 6000]), fs=rndf.choice([1.0, 250.0]), Lreq=rndf.choice([64, 100, 333]),
                   delta=rndf.choice([-0.45, -0.3, 0.3, 0.45]), fbin=rndf.uniform(8.0, 20.0), order=[-1, 0, 1, 2][k % 4], mode=["csd", "auto"][k % 2],
                   backend=["numba", "numpy"][(k // 2) % 2]) for k in range(8 if tier == "quick" else 48)]
    trs = trs + common.pmap(record_fres_trace, fspecs, chunksize=2)
    kept = [t for t in trs if t["ev"] and t["c"]["budget"] <= 1024]
    V.set("scale_traces_dropped_ill_conditioned", len(trs) - len(kept))
    V.set("scale_traces_with_K_above_8192", sum(1 for t in kept if t["meta"]["K"] > 8192))
    verdicts, tres = traces.validate("KernelTrace", f"{PID}_trace", kept)
    V.model(tres, "KernelTrace.tla (recorded calls at scale)")
    V.add("traces_validated_against_impl", len(kept))
    for t, vd in zip(kept, verdicts):
        V.case(t["meta"], True)
        for (l, clause) in vd:
            b = t["ev"][l - 1]["b"]
            V.violation(f"{PID}|trace|{b}|{t['meta']['mode']}|{clause}",
                        {"kind": "scale_trace", "trace": t, "event": l, "clause": clause,
                         "message": f"KernelTrace rejected event {l} ({b}) clause {clause}: {t['ev'][l - 1]} vs first {t['ev'][0]}"})
    V.sample({"scale_trace": kept[0]})
    V.assumptions += [
        "lattice completeness: the statistics are (sesqui)linear/quadratic/quartic forms in the data for fixed (L, starts, window, w, order); impulses, impulse pairs and dense records pin them",
        "CUDA kernels run under numba's CUDA simulator (same kernel source, python threads), not on a device",
        "scale traces: 'definition' events are the recorder's direct longdouble evaluation of the DFT sum; the rounding budget (8*eps*L^2 per transform) is supplied by the recorder and capped at 1024 quanta (1e-3 of the larger power)",
        "IEEE double arithmetic is exact to 1e-9 relative on the lattice (L <= 6, scaled operands <= 6000)",
    ]
    return V.finish(rule="cases = terminal states of Kernel.tla (every record/L/start-vector/window/c2/order/mode of the scope) + random scale specs; non-trivial = expected power non-zero; distinct by argument hash")


def replay(payload) -> int:
    common.use_repo()
    if payload.get("kind") == "kernel_case":
        case = payload["case"]
        fn = replay_case_cuda if payload.get("backend") == "cuda" else replay_case
        if payload.get("backend") == "cuda":
            print("re-run with NUMBA_ENABLE_CUDASIM=1 for the cuda backend")
        out = fn(case)
        print("expected", kc.expected(case))
        for o in out:
            print("MISMATCH", o)
        return 1 if out else 0
    if payload.get("kind") == "scale_trace":
        t = record_scale_trace({**payload["trace"]["meta"]})
        print(t)
        vd, _ = traces.validate("KernelTrace", f"{PID}_replay", [t])
        print(vd)
        return 1 if vd[0] else 0
    return 2
