"""C05 - a computed spectrum is the reference estimator applied to its own plan."""
from __future__ import annotations

import random

from .. import analyzercases as ac, common, tlc, traces
from ..tlc import Raw

PID = "C05"


def _scn(case):
    return ac.replay_scenario(case)


def _lat(spec):
    return ac.record_lattice(spec)


def _band(spec):
    return ac.record_band(spec)


def run(tier):
    V = common.Verdict(PID, tier, "model_checking")
    sd = common.seed()
    consts = dict(Templates=Raw("{<<3>>, <<4,3>>, <<3,3>>, <<4,3,4>>, <<2,4,2>>}"), Wins={"rect", "asym"}, Orders={-1, 0, 1, 2},
                  Modes={"auto", "csd"}, EmitCases=True, NRec=5, Rots=Raw("{0, 1}"), BandSet="few")
    if tier == "thorough":
        consts.update(Templates=Raw("{<<3>>, <<4,3>>, <<3,3>>, <<4,3,4>>, <<2,4,2>>, <<5,5,2>>, <<1,3,1>>}"), Wins={"rect", "asym", "ramp"},
                      Rots=Raw("{0, 1, 2}"), BandSet="all")
    res = tlc.run_model("Analyzer", f"{PID}_model", constants=consts, invariants=ac.ANALYZER_INVARIANTS, timeout=7200)
    if res.violated:
        raise tlc.TLCError(f"Analyzer.tla violates its own invariant {res.violated}")
    V.model(res, "Analyzer.tla (plan/validate/band/per-bin dispatch/window+Q caches/assembly)")
    cases = res.json_prints()
    out = common.pmap(_scn, cases, chunksize=32)
    for case, probs in zip(cases, out):
        V.case({k: case[k] for k in ("x", "y", "win", "order", "mode", "band", "bins")}, not case["error"])
        for (backend, fld, q, got, exp) in probs:
            V.violation(f"{PID}|replay|{backend}|{case['mode']}|{'band' if case['band'] else 'full'}|{fld}",
                        {"kind": "analyzer_scenario", "case": case, "backend": backend, "field": fld, "bin": q,
                         "message": f"{backend} analysis of scenario (order={case['order']}, win={case['win']}, band={case['band']}, bins={[(b['L'], b['D'], b['c2']) for b in case['bins']]}): {fld}[{q}] = {got}, expected {exp}"})
    V.sample({"scenario": {k: cases[len(cases) // 2][k] for k in ("x", "y", "win", "order", "mode", "band", "bins", "error", "out")}})
    V.set("scenarios_replayed", len(cases))

    # lattice traces: single-bin requests, the spec recomputes the reference estimator for the REPORTED segmentation
    rnd = random.Random(sd + 3)
    n = 60 if tier == "quick" else 600
    specs = []
    for k in range(n):
        N = rnd.choice([6, 7, 8, 9, 10, 12])
        order = rnd.choice([-1, 0, 1, 2])
        Lmax = 6 if order <= 0 else 5
        specs.append(dict(seed=rnd.randrange(2 ** 31), N=N, win=rnd.choice(["rect", "asym", "ramp"]), order=order,
                          mode=rnd.choice(["auto", "csd"]), olap=rnd.choice([0.0, 0.5, 0.75, 0.3]), backend=rnd.choice(["numba", "numpy"]),
                          sched="ltf", Jdes=3, Kdes=2,
                          singles=[(rnd.choice([2, 1, 0, -1, -2]), rnd.randint(1, Lmax)) for _ in range(4)],
                          singles_fres=[(rnd.choice([1, 0, -1]), rnd.randint(2, Lmax)) for _ in range(2)]))
    trs = [t for t in common.pmap(_lat, specs, chunksize=4) if t["ev"]]
    vd, tres = traces.validate("AnalyzerTrace", f"{PID}_trace", trs)
    V.model(tres, "AnalyzerTrace.tla (single-bin analyses of lattice records; TLC evaluates DefStats for the reported segmentation)")
    V.add("traces_validated_against_impl", len(trs))
    for t, v in zip(trs, vd):
        V.case(t["meta"], True)
        for (l, clause) in v:
            V.violation(f"{PID}|trace|{t['ev'][l-1]['kind']}|{t['meta']['backend']}|{clause}",
                        {"kind": "lattice_trace", "spec": t["meta"], "event": l, "clause": clause, "record": t["c"], "ev": t["ev"][l - 1],
                         "message": f"AnalyzerTrace rejected event {l} {t['ev'][l-1]} of {t['meta']}: {clause}"})
    V.sample({"lattice_trace": {"c": trs[0]["c"], "ev": trs[0]["ev"][:2]}})
    # real schedulers x Kaiser windows: stored window sums for two side-lobe levels analysed in one process
    from . import _result_common as R
    R.run_traces(V, PID, tier, sd, lambda rnd: [("refbin",), ("winsum", rnd.choice([60, 90]), rnd.choice([120, 200]), rnd.choice([60, 150]))], n_quick=8, n_thorough=40,
                 # long records with short segments: top bins have K far above the NumPy kernels' chunk sizes (8192/16384/32768)
                 extra=[dict(N=150000, fs=1.0, data="drift", sched="ltf", win="hann", order=o, backend="numpy", Jdes=12, Kdes=20, Lmin=1, psll=120)
                        for o in ((-1, 2) if tier == "quick" else (-1, 0, 1, 2))] +
                       # windows passed as the scipy function itself (the configured window is fn(L), whatever keywords fn also accepts)
                       [dict(N=3000, fs=2.0, data="filtered", sched=sc, win=wn, order=0, backend=b, Jdes=30, Kdes=5, Lmin=16, psll=120)
                        for (sc, wn, b) in (("ltf", "sp:blackmanharris", "numba"), ("vectorized_ltf", "sp:hann", "numpy"))] +
                       # constant offsets 1e12 times the fluctuations, all bins outside the 200 dB main lobe; reference = the definition in long double
                       [dict(N=60000, fs=10.0, data="hugeoffset", sched="ltf", win="kaiser", order=0, backend="numpy", Jdes=40, Kdes=20, Lmin=1, psll=200,
                             refdef=True, bmin=10.0)])
    # band restriction on real plans, with and without a forced bin count
    bspecs = [dict(seed=rnd.randrange(2 ** 31), N=rnd.choice([1500, 4000]), mode=["auto", "csd"][k % 2], sched=["ltf", "lpsd", "vectorized_ltf"][k % 3],
                   order=rnd.choice([0, 1]), backend=["numba", "numpy"][k % 2], Kdes=rnd.choice([5, 20]), Lmin=1 if k % 3 == 1 else rnd.choice([1, 32]), Jdes=rnd.choice([40, 90]),
                   bands=[(3, 10), (0, 0), (5, 5), (0.05, 0.4), (0.2, 0.2000001), (0.9, 1.0), (2.0, 3.0)]) for k in range(6 if tier == "quick" else 30)]
    btr = common.pmap(_band, bspecs, chunksize=1)
    bvd, bres = traces.validate("BandTrace", f"{PID}_band", btr)
    V.model(bres, "BandTrace.tla (band-restricted vs unrestricted analyses, forced and unforced bin count)")
    V.add("traces_validated_against_impl", len(btr))
    for t, v in zip(btr, bvd):
        V.case(t["meta"], True)
        for (l, clause) in v:
            e = t["ev"][l - 1]
            V.violation(f"{PID}|band|{clause}|force={e['force']}", {"kind": "band_trace", "spec": t["meta"], "event": l,
                                                                  "message": f"BandTrace rejected {e} (band #{(l - 1) % len(t['meta']['bands'])} of {t['meta']}): {clause}"})
    V.assumptions += ["plans and windows are injected through the public scheduler=/win= callables; frequencies are the lattice angles (w = 0, pi/3, pi/2, 2pi/3, pi) so that the reference estimator is exact",
                      "Kaiser construction and real schedulers x real windows are bound by shims in the C05 thorough tier / C12"]
    return V.finish(rule="scenarios = terminal states of Analyzer.tla (plan templates x start-vector variants x frequency rotations x records x windows x orders x modes x bands) + seeded random single-bin requests; non-trivial = scenario without plan error")


def replay(payload):
    common.use_repo()
    if payload["kind"] == "analyzer_scenario":
        probs = ac.replay_scenario(payload["case"])
        for p in probs:
            print("MISMATCH", p)
        return 1 if probs else 0
    if payload["kind"] == "result_trace":
        from . import _result_common as R
        return R.replay_trace(payload)
    t = ac.record_lattice(payload["spec"])
    vd, _ = traces.validate("AnalyzerTrace", f"{PID}_replay", [t])
    print(vd)
    return 1 if vd[0] else 0
