"""C14 - results do not depend on thread scheduling or on call history.

Prange.tla (parallel-for schedule model; the shared-scratch variant must exhibit the race), AnalyzerHist.tla
(all call histories on one analyzer), Result.tla (attribute-access histories).  Conformance: every history is
executed on the real objects and every returned array is compared BITWISE with a fresh object doing only that
call; kernels and full analyses are run under every thread count x chunk size and compared bitwise with one thread."""
from __future__ import annotations

import hashlib
import os
import subprocess
import sys
import json

import numpy as np

from .. import common, resultcases as rc, tlc
from . import _result_common as R

PID = "C14"
BASE = ("f", "r", "b", "L", "K", "navg", "O", "XX", "YY", "XY", "S12", "S2", "M2")


def _digest(r):
    h = hashlib.blake2b(digest_size=12)
    for k in BASE:
        h.update(np.ascontiguousarray(getattr(r, k)).tobytes())
    for d in r.D:
        h.update(np.ascontiguousarray(d).tobytes())
    return h.hexdigest()


def _plan_digest(p):
    h = hashlib.blake2b(digest_size=12)
    for k in ("f", "r", "b", "L", "K", "navg", "O"):
        h.update(np.ascontiguousarray(p[k]).tobytes())
    for d in p["D"]:
        h.update(np.ascontiguousarray(d).tobytes())
    return h.hexdigest()


def _mk(cfg, force):
    import speckit
    rng = np.random.default_rng(cfg["seed"])
    N = cfg["N"]
    x = rng.standard_normal(N) + cfg.get("offset", 0.0)
    if cfg.get("gaps"):          # a record with gaps (NaN / inf samples): what a call returns must not depend on which call came first
        x[[3, N // 2, N - 5]] = [np.nan, np.inf, -np.inf]
    data = x if cfg["mode"] == "auto" else np.vstack([x, 0.5 * np.roll(x, 2) + rng.standard_normal(N)])
    kw = dict(scheduler=cfg["sched"], order=cfg["order"], backend=cfg["backend"], olap=cfg["olap"], Kdes=cfg["Kdes"], Lmin=cfg["Lmin"], bmin=1.0)
    if force:
        from speckit import schedulers
        fn = {"ltf": schedulers.ltf_plan, "lpsd": schedulers.lpsd_plan, "vectorized_ltf": schedulers.vectorized_ltf_plan}[cfg["sched"]]
        target = int(fn(N=N, fs=2.0, olap=cfg["olap"], bmin=1.0, Lmin=cfg["Lmin"], Jdes=150, Kdes=cfg["Kdes"])["nf"])   # a reachable count
        kw.update(Jdes=target, force_target_nf=True)
    else:
        kw.update(Jdes=cfg["Jdes"])
    return speckit.SpectrumAnalyzer(data, 2.0, **kw)


def _do(a, op, cfg, Ls):
    try:
        return _do2(a, op, cfg, Ls)
    except (RuntimeError, ValueError) as exc:
        return ("raises", type(exc).__name__)


def _do2(a, op, cfg, Ls):
    if op == "plan":
        return ("plan", _plan_digest(a.plan()))
    if op == "compute":
        return ("spec", _digest(a.compute()))
    if op == "bin1":
        return ("bin", _digest(a.compute_single_bin(0.2, L=Ls[0])))
    if op == "bin3":          # one segment shorter than the record
        return ("bin", _digest(a.compute_single_bin(0.13, L=int(0.9 * cfg["N"]))))
    return ("bin", _digest(a.compute_single_bin(0.31, fres=2.0 / (Ls[1] + 0.4))))


def run_history(item):
    """One call history on one analyzer; each answer compared bitwise with a fresh analyzer's."""
    cfg, force, hist = item
    probs = []
    ref_an = _mk(cfg, force)
    Lp = [int(v) for v in ref_an.plan()["L"]]
    Ls = (Lp[len(Lp) // 2], Lp[(2 * len(Lp)) // 3])          # lengths that occur in the plan
    a = _mk(cfg, force)
    plans = []
    for k, op in enumerate(hist):
        try:
            got = _do(a, op, cfg, Ls)
            fresh = _do(_mk(cfg, force), op, cfg, Ls)
        except Exception as exc:
            probs.append((k, op, f"raises {type(exc).__name__}: {exc}"[:120]))
            break
        if got != fresh:
            probs.append((k, op, "differs from a fresh analyzer"))
        if op == "plan":
            p = a.plan()
            plans.append((p, _plan_digest(p)))
        for p, d in plans:
            if a.plan() is not p:
                probs.append((k, op, "plan() returned a different object"))
            if _plan_digest(p) != d:
                probs.append((k, op, "cached plan was modified"))
    return probs


THREAD_SCRIPT = r'''
import sys, json, hashlib
sys.path.insert(0, sys.argv[1])
import numpy as np, numba
from speckit import core
import speckit
spec = json.loads(sys.argv[2])
rng = np.random.default_rng(spec["seed"])
N = spec["N"]; L = spec["L"]; K = spec["K"]
x = rng.standard_normal(N); y = 0.3 * x + rng.standard_normal(N)
starts = np.sort(rng.integers(0, N - L + 1, size=K)).astype(np.int64)
w = np.kaiser(L + 1, 12.0)[:-1].copy()
om = spec["omega"]
out = {}
def dig(t):
    return hashlib.blake2b(np.array(t, dtype=np.float64).tobytes(), digest_size=10).hexdigest()
names = ["_stats_win_only_auto", "_stats_win_only_csd", "_stats_detrend0_auto", "_stats_detrend0_csd", "_stats_poly_auto", "_stats_poly_csd"]
for t in spec["threads"]:
    numba.set_num_threads(t)
    for ch in spec["chunks"]:
        numba.set_parallel_chunksize(ch)
        for rep in range(spec["reps"]):
            for nm in names:
                for order in ((1, 2) if "poly" in nm else (0,)):
                    args = [x] if nm.endswith("auto") else [x, y]
                    args += [starts, L, w, om]
                    if "poly" in nm:
                        args.append(core._build_Q(L, order))
                    numba.set_parallel_chunksize(ch)
                    out.setdefault(f"{nm}:{order}", {}).setdefault(f"{t}/{ch}", set()).add(dig(getattr(core, nm)(*args)))
            numba.set_parallel_chunksize(ch)
            r = speckit.compute_spectrum(np.vstack([x, y]), 1.0, order=spec["rep_order"], Jdes=25, Kdes=30, scheduler="ltf")      # default backend ("auto")
            h = hashlib.blake2b(digest_size=10)
            for k in ("XX", "YY", "XY", "M2"):
                h.update(np.ascontiguousarray(getattr(r, k)).tobytes())
            out.setdefault("full_analysis", {}).setdefault(f"{t}/{ch}", set()).add(h.hexdigest())
print(json.dumps({k: {kk: sorted(vv) for kk, vv in v.items()} for k, v in out.items()}))
'''


def run_threads(spec):
    """Separate interpreter (numba threads must not be initialised in the harness process)."""
    env = dict(os.environ)
    env["NUMBA_NUM_THREADS"] = "16"
    p = subprocess.run([sys.executable, "-c", THREAD_SCRIPT, common.SRC, json.dumps(spec)], capture_output=True, text=True, env=env, timeout=3000)
    if p.returncode != 0:
        raise tlc.TLCError("thread sweep subprocess failed: " + p.stderr[-600:])
    return json.loads(p.stdout.strip().splitlines()[-1])


def _hist_worker(item):
    return rc.replay_history(item)


def run(tier):
    V = common.Verdict(PID, tier, "model_checking")
    sd = common.seed()
    # (1) schedule model
    r0 = tlc.run_model("Prange", f"{PID}_race", constants=dict(K=3, W=2, SharedScratch=True, EmitOrders=False),
                       invariants=["SlotsOwnValue", "AllWrittenAtReduce", "NoDoubleTake", "ReduceInputDeterministic"])
    if "SlotsOwnValue" not in r0.violated:
        raise tlc.TLCError("Prange.tla with shared scratch should exhibit the race (vacuity guard)")
    rp = tlc.run_model("Prange", f"{PID}_prange", constants=dict(K=4 if tier == "quick" else 5, W=3, SharedScratch=False, EmitOrders=False),
                       invariants=["SlotsOwnValue", "AllWrittenAtReduce", "NoDoubleTake", "ReduceInputDeterministic"])
    if rp.violated:
        raise tlc.TLCError(f"Prange.tla violates {rp.violated}")
    V.model(rp, "Prange.tla private scratch: every interleaving of W workers over K iterations")
    # (2) real schedules
    threads = [1, 2, 3, 4, 8, 16] if tier == "quick" else list(range(1, 17))
    spec = dict(seed=sd + 1, N=6000, L=200, K=257, omega=0.37, threads=threads, chunks=[0, 1, 7] if tier == "quick" else [0, 1, 2, 7],
                reps=2 if tier == "quick" else 3, rep_order=1)
    sweep = run_threads(spec)
    from .. import traces
    trs = []
    for kern, table in sweep.items():
        order_seen = []
        ev = []
        for cfgk, digs in table.items():           # insertion order: threads ascending, first is "1/0"
            for d in digs:
                if d not in order_seen:
                    order_seen.append(d)
            thr, ch = cfgk.split("/")
            ev.append({"thr": int(thr), "chunk": int(ch), "dig": order_seen.index(digs[0]) + 1, "ndig": len(digs)})
        trs.append({"meta": {"kernel": kern}, "c": {}, "ev": ev})
    vd, tres = traces.validate("ScheduleTrace", f"{PID}_schedtrace", trs)
    V.model(tres, "ScheduleTrace.tla (thread x chunk sweep, bitwise digests)")
    V.add("traces_validated_against_impl", len(trs))
    runs = 0
    for t, v in zip(trs, vd):
        runs += len(t["ev"])
        for e in t["ev"]:
            V.case({"kernel": t["meta"]["kernel"], "thr": e["thr"], "chunk": e["chunk"]}, True)
        seen = set()
        for (l, clause) in v:
            if clause in seen:
                continue
            seen.add(clause)
            e = t["ev"][l - 1]
            V.violation(f"{PID}|threads|{t['meta']['kernel']}|{clause}",
                        {"kind": "threads", "spec": spec, "kernel": t["meta"]["kernel"], "event": e,
                         "message": f"{t['meta']['kernel']} with {e['thr']} threads, chunk size {e['chunk']}: {clause} (digest #{e['dig']}, {e['ndig']} distinct among repetitions)"})
    V.set("thread_chunk_configurations", runs)
    # (3) call histories on one analyzer
    mh = 3 if tier == "quick" else 4
    rh = tlc.run_model("AnalyzerHist", f"{PID}_hist", constants=dict(MaxLen=mh, EmitHistories=True), invariants=["HistoryIndependent", "CachedPlanUnchanged", "Emit"])
    if rh.violated:
        raise tlc.TLCError(f"AnalyzerHist.tla violates {rh.violated}")
    V.model(rh, f"AnalyzerHist.tla: all call histories of length {mh}, force_target_nf on/off")
    hs = rh.json_prints()
    cfgs = [dict(seed=5, N=700, mode="csd", sched="ltf", order=0, backend="numba", olap=0.5, Kdes=4, Lmin=8, Jdes=12, target=14),
            dict(seed=6, N=900, mode="auto", sched="lpsd", order=1, backend="numpy", olap=0.3, Kdes=3, Lmin=1, Jdes=9, target=11),
            dict(seed=8, N=600, mode="csd", sched="ltf", order=0, backend="numpy", olap=0.5, Kdes=4, Lmin=8, Jdes=10, target=12, offset=40.0),
            dict(seed=9, N=640, mode="csd", sched="ltf", order=0, backend="numba", olap=0.5, Kdes=4, Lmin=8, Jdes=10, target=12, gaps=True)]
    if tier == "thorough":
        cfgs.append(dict(seed=7, N=800, mode="csd", sched="vectorized_ltf", order=2, backend="numba", olap=0.75, Kdes=6, Lmin=16, Jdes=15, target=16))
    items = [(c, h["force"], h["hist"]) for h in hs for c in cfgs]
    out = common.pmap(run_history, items, chunksize=8)
    for (c, force, h), probs in zip(items, out):
        V.case({"cfg": c, "force": force, "hist": h}, True)
        for (k, op, what) in probs:
            V.violation(f"{PID}|history|{c['sched']}|{op}|{what.split(':')[0]}|force={force}",
                        {"kind": "analyzer_history", "cfg": c, "force": force, "hist": h, "step": k,
                         "message": f"history {h} (force_target_nf={force}, {c['sched']}): step {k} {op}: {what}"})
    V.set("analyzer_histories", len(items))
    # (4) attribute access orders on one result
    res2, results, hists = R.hist_cases(f"{PID}_attr", 2 if tier == "quick" else 3)
    V.model(res2, "Result.tla scope=hist (access orders, copies)")
    res3, results3, hists3 = R.hist_cases(f"{PID}_attrsim", 10, simulate="num=30" if tier == "quick" else "num=120", depth=11, seed=sd + 3)
    V.model(res3, "Result.tla scope=hist, simulated length-10 access orders")
    allh = [(results[rid], h) for rid, h in hists] + [(results3[rid], h) for rid, h in hists3 if rid in results3]
    out = common.pmap(_hist_worker, allh, chunksize=32)
    for (case, h), probs in zip(allh, out):
        V.case({"bins": case["bins"], "hist": h}, True)
        for p in probs:
            V.violation(f"{PID}|access_order|{'csd' if case['iscsd'] else 'auto'}|{p[0].split(':')[1]}|{p[1]}|{str(p[3]).split(' ')[0]}",
                        {"kind": "result_history", "case": case, "hist": h, "problem": p,
                         "message": f"access history {[(o['op'], o['name']) for o in h]}: {p}"})
    V.set("access_histories", len(allh))
    V.sample({"analyzer_history": hs[len(hs) // 2], "thread_sweep_keys": list(sweep)[:3]})
    V.assumptions += ["a data race that never manifests in the executed thread/chunk configurations is not observed; Prange.tla shows the design (private scratch) is race free and that the shared-scratch variant is not",
                      "bitwise comparisons only within one backend and one machine"]
    return V.finish(rule="cases = thread x chunk configurations x kernels, all call histories of AnalyzerHist.tla x analyzer configurations, all/simulated access histories of Result.tla; all non-trivial; distinct by content hash")


def replay(payload):
    common.use_repo()
    k = payload["kind"]
    if k == "threads":
        print(run_threads(payload["spec"]).get(payload["kernel"]))
        return 1
    if k == "analyzer_history":
        p = run_history((payload["cfg"], payload["force"], payload["hist"]))
        print(p)
        return 1 if p else 0
    p = rc.replay_history((payload["case"], payload["hist"]))
    print(p)
    return 1 if p else 0
