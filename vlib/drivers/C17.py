"""C17 - noise generators are seed-reproducible continuous streams."""
from __future__ import annotations

import os
import random

import numpy as np

from .. import common, tlc, traces

PID = "C17"
INV = ["SeriesContiguous", "SamplesContiguous", "FilterStateConsistent", "Emit"]
BUF = 4


def make(kind, seed, settled):
    from speckit import noise
    if kind == "white":
        return noise.white_noise(10.0, psd=2.0, seed=seed)
    if kind == "red":
        return noise.red_noise(10.0, 4.0, init_filter=settled, seed=seed)
    if kind == "alpha":
        return noise.alpha_noise(100.0, 5.0, 40.0, 1.5, init_filter=settled, seed=seed)
    return noise.pink_noise(100.0, 5.0, 40.0, init_filter=settled, seed=seed)


def run_model_history(item):
    """Execute a Noise.tla history on the real generator; every block must sit at the model's position of the twin's stream."""
    from speckit import noise
    kind, settled, hist, blocks, seed = item
    old = noise._DEFAULT_BUFFER_SIZE
    noise._DEFAULT_BUFFER_SIZE = BUF
    probs = []
    try:
        g = make(kind, seed, settled)
        twin = make(kind, seed, settled)
        total = max([b["from"] + max(b["n"], 1) for b in blocks] + [0]) + 2 * BUF + 8
        start = (1 if kind == "red" else 0) + (0 if not settled else None or 0)
        # positions in the model are absolute RNG positions; the twin's stream starts at the model's Start
        base = min(b["from"] for b in blocks) if blocks else 0
        first_from = None
        ref = twin.get_series(total)
        # model Start = position of the first sample after construction
        for k, (op, b) in enumerate(zip(hist, blocks)):
            if first_from is None:
                first_from = b["from"] if b["state"] == b["from"] else None
        start = blocks[0]["from"] if blocks and hist[0]["op"] == "series" else (blocks[0]["from"] if blocks else 0)
        for k, (op, b) in enumerate(zip(hist, blocks)):
            if op["op"] == "series":
                out = np.asarray(g.get_series(op["n"]))
            else:
                out = np.asarray([g.get_sample()])
            if out.shape != (b["n"],):
                probs.append((k, op["op"], f"length {out.shape} for n={b['n']}"))
                continue
            if b["state"] != b["from"]:
                continue        # the model says this block is not continuous (only in the unrepaired variant)
            off = b["from"] - start
            if out.tobytes() != ref[off:off + b["n"]].tobytes():
                probs.append((k, op["op"], f"block {k} (n={b['n']}) differs from the single request at offset {off}"))
    except Exception as exc:
        probs.append((-1, "raises", f"{type(exc).__name__}: {exc}"[:100]))
    finally:
        noise._DEFAULT_BUFFER_SIZE = old
    return probs


def run_iir(case):
    """Exact cascade case into _numba_lfilter_cascade and scipy.signal.lfilter, whole and split at k."""
    from scipy import signal
    from speckit import noise
    r = lambda p: p[0] / p[1]
    secs = case["secs"]
    a = np.array([[r(s["a0"]), r(s["a1"])] for s in secs])
    b = np.array([[1.0, r(s["b1"])] for s in secs])
    xs = np.array([r(x) for x in case["xs"]])
    z0 = np.array([[r(z)] for z in case["zs"]])
    exp_out = np.array([r(v) for v in case["out"]])
    exp_z = np.array([r(v) for v in case["zf"]])
    probs = []
    out, zf = noise._numba_lfilter_cascade(xs.copy(), a, b, z0.copy())
    if not (np.array_equal(out, exp_out) and np.array_equal(zf[:, 0], exp_z)):
        probs.append(("cascade_whole", out.tolist(), exp_out.tolist()))
    k = case["k"]
    o1, z1 = noise._numba_lfilter_cascade(xs[:k].copy(), a, b, z0.copy())
    o2, z2 = noise._numba_lfilter_cascade(xs[k:].copy(), a, b, z1.copy())
    if not (np.array_equal(np.concatenate([o1, o2]), exp_out) and np.array_equal(z2[:, 0], exp_z)):
        probs.append(("cascade_split", np.concatenate([o1, o2]).tolist(), exp_out.tolist()))
    # direct-form reference, section by section
    y = xs.copy()
    zs = []
    for i in range(len(secs)):
        y, zfi = signal.lfilter(a[i], b[i], y, zi=z0[i])
        zs.append(zfi[0])
    if not (np.array_equal(y, exp_out) and np.array_equal(np.array(zs), exp_z)):
        probs.append(("scipy_reference", y.tolist(), exp_out.tolist()))
    return probs


def record_long(spec):
    """Random long call sequence vs a twin's single request and a third same-seed instance."""
    kind, seed, sizes = spec["kind"], spec["seed"], spec["sizes"]
    g, twin, third = make(kind, seed, spec["settled"]), make(kind, seed, spec["settled"]), make(kind, seed, spec["settled"])
    ref = np.asarray(twin.get_series(int(sum(sizes))))
    ev = []
    pos = 0
    by_sample = spec.get("by_sample", False)          # a run of get_sample calls (real prefetch size) instead of block requests
    for n in sizes:
        if by_sample:
            out = np.array([g.get_sample() for _ in range(n)], dtype=float)
            o3 = np.array([third.get_sample() for _ in range(n)], dtype=float)
        else:
            out = np.asarray(g.get_series(n))
            o3 = np.asarray(third.get_series(n))
        ev.append({"n": int(n), "len": int(out.size), "pos": int(pos), "match": int(out.tobytes() == ref[pos:pos + n].tobytes()),
                   "same": int(out.tobytes() == o3.tobytes())})
        pos += n
    # the colouring cascade against the direct-form reference on a long block
    qref = 0
    if kind in ("alpha", "pink"):
        from scipy import signal
        from speckit import noise
        rng = np.random.default_rng(seed)
        w = rng.standard_normal(70001)
        # the generator's own coefficients, and those of extreme configurations (sections that are almost pass-through:
        # f_min/fs = 1e-9, a very small exponent)
        gens = [g, noise.alpha_noise(1e6, 1e-3, 1e4, 1.0, init_filter=False, seed=1), noise.alpha_noise(1e5, 1.0, 10.0, 0.03, init_filter=False, seed=1)]
        worst = 0.0
        for gg in gens:
            a, b = np.asarray(gg._a_coeffs), np.asarray(gg._b_coeffs)
            z0 = rng.standard_normal((a.shape[0], 1)) * 0.1
            out, zf = noise._numba_lfilter_cascade(w.copy(), a, b, z0.copy())
            y = w.copy()
            zs = []
            for i in range(a.shape[0]):
                y, zfi = signal.lfilter(a[i], b[i], y, zi=z0[i])
                zs.append(zfi[0])
            scale = float(np.max(np.abs(y))) + 1e-300
            worst = max(worst, max(float(np.max(np.abs(out - y))), float(np.max(np.abs(zf[:, 0] - np.array(zs))))) / scale)
        qref = traces.q(worst, 2 ** 30)
    # the same seed in another interpreter (another PYTHONHASHSEED): the first samples must be the same numbers
    xproc = 1
    if spec.get("xproc"):
        import subprocess, sys
        code = ("import sys; sys.path.insert(0, %r); sys.path.insert(0, '/verif'); from vlib.drivers.C17 import make; "
                "print(make(%r, %r, %r).get_series(8).tobytes().hex())" % (common.SRC, kind, seed, bool(spec["settled"])))
        outp = subprocess.run([sys.executable, "-B", "-c", code], capture_output=True, text=True, timeout=600,
                              env=dict(os.environ, PYTHONHASHSEED=str(1 + seed % 1000)))
        mine = np.asarray(make(kind, seed, spec["settled"]).get_series(8)).tobytes().hex()
        xproc = int(outp.returncode == 0 and outp.stdout.strip().splitlines()[-1:] == [mine])
    for e in ev:
        e["qref"] = qref
        e["xproc"] = xproc
    return {"meta": dict(spec, sizes=sizes[:12]), "c": {"start": 0}, "ev": ev}


def run(tier):
    V = common.Verdict(PID, tier, "model_checking")
    sd = common.seed()
    kinds = {"white", "red", "alpha", "pink"}
    r0 = tlc.run_model("Noise", f"{PID}_unrepaired", constants=dict(Kinds={"red"}, Sizes={0, 1, 2}, Buf=BUF, Settle=5, MaxOps=3, EmitHistories=False, ZeroBlockKeepsState=False), invariants=INV)
    if "FilterStateConsistent" not in r0.violated:
        raise tlc.TLCError("Noise.tla without the zero-block rule should violate FilterStateConsistent (vacuity guard)")
    mo = 4 if tier == "quick" else 5
    res = tlc.run_model("Noise", f"{PID}_model", constants=dict(Kinds=kinds, Sizes={0, 1, 2, 3, 7}, Buf=BUF, Settle=5, MaxOps=mo, EmitHistories=True, ZeroBlockKeepsState=True), invariants=INV)
    if res.violated:
        raise tlc.TLCError(f"Noise.tla violates {res.violated}")
    V.model(res, f"Noise.tla: all histories of {mo} get_series/get_sample calls on the four generators")
    hs = res.json_prints()
    if tier == "quick":
        rnd0 = random.Random(sd)
        hs = [h for h in hs if h["kind"] in ("red", "alpha") or rnd0.random() < 0.35]
    items = [(h["kind"], h["settled"], h["hist"], h["blocks"], (0 if k % 9 == 0 else 100 + (k % 7))) for k, h in enumerate(hs)]     # seed 0 is a seed
    out = common.pmap(run_model_history, items, chunksize=64)
    for it, probs in zip(items, out):
        V.case({"kind": it[0], "settled": it[1], "hist": it[2]}, True)
        for (k, op, what) in probs:
            zero = any(o["op"] == "series" and o["n"] == 0 for o in it[2][:max(k, 0) + 1])
            V.violation(f"{PID}|history|{it[0]}|{op}|{'after_zero_length_request' if zero else 'no_zero_request'}",
                        {"kind": "noise_history", "item": list(it), "message": f"{it[0]} generator, history {[(o['op'], o['n']) for o in it[2]]}: {what}"})
    V.set("model_histories_replayed", len(items))
    # exact IIR
    ri = tlc.run_model("Iir", f"{PID}_iir", constants=dict(MaxLen=3 if tier == "quick" else 4, EmitCases=True), invariants=["SplitHolds", "Emit"])
    if ri.violated:
        raise tlc.TLCError(f"Iir.tla violates {ri.violated}")
    V.model(ri, "Iir.tla: exact cascade, every split point")
    cases = ri.json_prints()
    out = common.pmap(run_iir, cases, chunksize=128)
    for c, probs in zip(cases, out):
        V.case(c, True)
        for (what, got, exp) in probs:
            V.violation(f"{PID}|iir|{what}", {"kind": "iir", "case": c, "message": f"{what}: got {got}, exact {exp}"})
    # long random sequences (sizes up to 2e5, zeros and ones over-weighted)
    rnd = random.Random(sd + 31)
    specs = []
    for k in range(16 if tier == "quick" else 120):
        sizes = [rnd.choice([0, 0, 1, 1, 2, 3, 17, 100, 1000, 4095, 4096, 4097, 10000, rnd.randint(0, 5000)]) for _ in range(rnd.randint(3, 12))]
        if (k // 4) % 2 == 0:          # every generator kind gets requests beyond 2^16 samples
            sizes.insert(rnd.randint(0, len(sizes)), rnd.choice([65536, 65537, 70000, 131073]))
        specs.append(dict(kind=["white", "red", "alpha", "pink"][k % 4], seed=rnd.randrange(2 ** 31), settled=bool(k % 3 == 0), sizes=sizes))
    for k in range(4):             # a fresh interpreter with another hash seed must produce the same stream
        specs.append(dict(kind=["white", "red", "alpha", "pink"][k], seed=rnd.randrange(2 ** 31), settled=bool(k % 2), sizes=[5, 3], xproc=True))
    for k in range(4):             # runs of single samples across several refills of the real 4096-sample prefetch buffer
        specs.append(dict(kind=["white", "red", "alpha", "pink"][k], seed=(0 if k % 2 else rnd.randrange(2 ** 31)), settled=False, sizes=[1, 4095, 1, 4096, 3000], by_sample=True))
    for k in range(4 if tier == "thorough" else 2):   # totals beyond 2^22 samples in one request against the same total in chunks
        specs.append(dict(kind=["white", "alpha", "red", "pink"][(k + sd) % 4], seed=rnd.randrange(2 ** 31), settled=False,
                          sizes=[2 ** 21, 3, 2 ** 21 + 1, 4097] if k % 2 == 0 else [2 ** 22, 1, 70000]))
    trs = common.pmap(record_long, specs, chunksize=1)
    vd, tres = traces.validate("NoiseTrace", f"{PID}_trace", trs)
    V.model(tres, "NoiseTrace.tla (long random call sequences)")
    V.add("traces_validated_against_impl", len(trs))
    for t, v in zip(trs, vd):
        V.case(t["meta"], True)
        for (l, clause) in v:
            V.violation(f"{PID}|trace|{t['meta']['kind']}|{clause}|{'big' if t['ev'][l-1]['n'] > 65535 else 'small'}_block",
                        {"kind": "noise_trace", "spec": dict(t["meta"]), "event": l, "message": f"NoiseTrace rejected event {l} {t['ev'][l-1]} of {t['meta']['kind']} generator: {clause}"})
    V.sample({"history": hs[len(hs) // 2], "iir_case": cases[len(cases) // 2]})
    V.assumptions += ["the prefetch size of get_sample is scaled to 4 through the module global _DEFAULT_BUFFER_SIZE; blocks are compared bitwise with a twin instance's single request",
                      "mixing get_sample and get_series reorders the emitted stream (modelled, not claimed otherwise by the property); every block is still compared at the stream position the model assigns"]
    return V.finish(rule="cases = every history of Noise.tla x seeds, every case of Iir.tla (sections x inputs x split points), long random call sequences; distinct by content hash; all non-trivial")


def replay(payload):
    common.use_repo()
    k = payload["kind"]
    if k == "noise_history":
        it = payload["item"]
        p = run_model_history((it[0], it[1], it[2], it[3], it[4]))
    elif k == "iir":
        p = run_iir(payload["case"])
    else:
        print("re-run the check (long sequences are regenerated from VERIF_SEED)")
        return 1
    print(p)
    return 1 if p else 0
