"""C16 - fractional time shifting is exact Lagrange interpolation."""
from __future__ import annotations

import random

import numpy as np

from .. import common, tlc, traces
from ..tlc import Raw

PID = "C16"
INV = ["TapsSumToOne", "ZeroShiftIsIdentity", "IntegerShiftIsDisplacement", "ReproducesPolynomials", "PathsAgreeInInterior", "Emit"]


def rat(p):
    return p[0] / p[1]


def seq(obj):
    """TLC prints 0-based functions as JSON objects keyed '0','1',...; sequences as arrays."""
    if isinstance(obj, dict):
        return [obj[str(k)] for k in range(len(obj))]
    return obj


def replay_case(case):
    from speckit import dsp
    probs = []
    data = np.array(case["data"], dtype=float)
    N, h = case["N"], case["h"]
    order = 2 * h - 1
    s = case["sInt"] + rat(case["d"])
    exp = np.array([rat(v) for v in seq(case["out"])])
    taps = np.array([rat(v) for v in seq(case["taps"])])
    got_t = dsp.lagrange_taps(np.array([rat(case["d"])]), h)[0]
    if not np.allclose(got_t, taps, rtol=0, atol=1e-12):
        probs.append(("taps_are_lagrange_weights", got_t.tolist(), taps.tolist()))
    d0 = data.copy()
    out = np.asarray(dsp.timeshift(data, s, order=order), dtype=float)
    scale = max(1.0, float(np.abs(data).max())) * max(1.0, float(np.abs(taps).sum()))
    if out.shape != exp.shape or not np.allclose(out, exp, rtol=0, atol=1e-11 * scale):
        probs.append(("constant_shift_value", out.tolist(), exp.tolist()))
    if not np.array_equal(data, d0):
        probs.append(("input_record_modified", data.tolist(), d0.tolist()))
    if s == 0 and out is not data and not np.array_equal(out, data):
        probs.append(("zero_shift_identity", out.tolist(), data.tolist()))
    # time-varying path with the model's alternating per-sample shifts
    si = np.array([case["sInt"] if n % 2 == 0 else case["sInt"] + case["alt"] for n in range(N)])
    dd = np.array([rat(case["d"]) if n % 2 == 0 else 0.5 for n in range(N)])
    sh = si + dd
    sh0 = sh.copy()
    expv = np.array([rat(v) for v in seq(case["outvar"])])
    if np.any(sh != 0):
        outv = np.asarray(dsp.timeshift(data, sh, order=order), dtype=float)
        if not np.allclose(outv, expv, rtol=0, atol=1e-11 * scale):
            probs.append(("varying_shift_value", outv.tolist(), expv.tolist()))
        if not np.array_equal(sh, sh0):
            probs.append(("shift_vector_modified", sh.tolist(), sh0.tolist()))
        outv2 = np.asarray(dsp.timeshift(data, sh, order=order), dtype=float)
        if not np.array_equal(outv, outv2):
            probs.append(("repeated_call_differs", outv2.tolist(), outv.tolist()))
    # the record's dtype must not matter: integer and single-precision records give the same interpolated values
    for dt, tol in ((np.int64, 1e-11), (np.float32, 1e-5)):
        rec = np.array(case["data"]).astype(dt)
        if s != 0:
            o = np.asarray(dsp.timeshift(rec, s, order=order), dtype=float)
            if o.shape != exp.shape or not np.allclose(o, exp, rtol=0, atol=tol * scale):
                probs.append((f"constant_shift_value_{np.dtype(dt).name}_record", o.tolist(), exp.tolist()))
        if np.any(sh != 0):
            o = np.asarray(dsp.timeshift(rec, sh, order=order), dtype=float)
            if o.shape != expv.shape or not np.allclose(o, expv, rtol=0, atol=tol * scale):
                probs.append((f"varying_shift_value_{np.dtype(dt).name}_record", o.tolist(), expv.tolist()))
    return probs


def wrapper_case(case):
    import pandas as pd
    from speckit import dsp
    cfg, outc = case["cfg"], case["outcome"]
    n = 12
    t = np.arange(n, dtype=float)
    df = pd.DataFrame({"a": t * t - 3 * t + 0.5, "b": (np.arange(n) * 3 - 7).astype(np.int64), "s": [f"r{k}" for k in range(n)]})
    if cfg["samples2"] == 3 or cfg["fn"] == "detrend":
        df.index = np.arange(n) * 2 + 5            # a non-default index (row-sliced / time-indexed frames)
    df0 = df.copy(deep=True)
    cols = {"none": None, "a": ["a"], "ab": ["a", "b"], "as": ["a", "s"], "zz": ["a", "zz"], "aa": ["a", "a"]}[cfg["sel"]]
    fs = 4.0
    samples = cfg["samples2"] / 2.0
    seconds = 0.0 if cfg["zero"] else samples / fs
    trunc = {"none": None, "true": True, "two": 2, "huge": n}[cfg["trunc"]]
    probs = []
    try:
        if cfg["fn"] == "timeshift":
            r = dsp.df_timeshift(df, fs, seconds, columns=cols, truncate=trunc, inplace=cfg["inplace"])
        else:
            r = dsp.df_detrend(df, columns=cols, order=1, inplace=cfg["inplace"])
    except ValueError as exc:
        return [] if outc["kind"] == "error" else [("unexpected_error", str(exc)[:80], outc["kind"])]
    if outc["kind"] == "error":
        return [("missing_column_not_reported", "no error", "ValueError")]
    if not df.equals(df0):
        probs.append(("caller_frame_modified", "", ""))
    if outc["kind"] == "same_object":
        if r is not df:
            probs.append(("zero_shift_returns_input", "different object", "same object"))
        return probs
    want_new = {c + outc["suffix"] for c in outc["newcols"]}
    if set(r.columns) != set(df.columns) | want_new:
        probs.append(("column_set", sorted(r.columns), sorted(set(df.columns) | want_new)))
        return probs
    if len(r) != outc["rows"]:
        probs.append(("rows_after_truncation", len(r), outc["rows"]))
        return probs
    k = outc["ntrunc"] if outc["rows"] else 0
    sl = slice(k, n - k) if k else slice(None)
    if not r.index.equals(df0.index[sl] if len(r) else r.index):
        probs.append(("index_changed", list(r.index)[:4], list(df0.index[sl])[:4]))
    for c in ("a", "b", "s"):
        tr = c in outc["transformed"]
        src = df0[c].to_numpy()
        if tr:
            exp = dsp.timeshift(src, seconds * fs) if cfg["fn"] == "timeshift" else dsp.polynomial_detrend(src, order=1)
            col = c if cfg["inplace"] else c + outc["suffix"]
            if len(r) and not np.allclose(np.asarray(r[col], dtype=float), np.asarray(exp, dtype=float)[sl], rtol=0, atol=1e-12):
                probs.append(("transformed_column_value", c, ""))
            if not cfg["inplace"] and len(r) and not np.array_equal(r[c].to_numpy(), src[sl]):
                probs.append(("original_column_changed", c, ""))
        else:
            if len(r) and not np.array_equal(r[c].to_numpy(), src[sl]):
                probs.append(("unselected_column_changed", c, ""))
    if cfg.get("chain") and isinstance(case.get("chain"), dict) and case["chain"]:
        # second call on the first call's result: every numeric column by one sample, not in place (DfWrapper.tla ApplyShift)
        r_before = r.copy(deep=True)
        if cfg["fn"] == "timeshift":
            r2 = dsp.df_timeshift(r, fs, 1.0 / fs, columns=None, truncate=None, inplace=False)
        else:
            r2 = dsp.df_detrend(r, columns=None, order=0, inplace=False)
        if not r.equals(r_before):
            probs.append(("caller_frame_modified", "second call", ""))
        want = set(case["chain"].keys()) | {"s"}
        if set(r2.columns) != want:
            probs.append(("column_set_after_second_call", sorted(r2.columns), sorted(want)))
            return probs
        for name, prov in case["chain"].items():
            val = df0[prov["root"]].to_numpy()
            for s2 in prov["shifts"]:
                val = dsp.timeshift(val, s2 / 2.0) if cfg["fn"] == "timeshift" else dsp.polynomial_detrend(np.asarray(val, dtype=float), order=int(s2))
            if not np.allclose(np.asarray(r2[name], dtype=float), np.asarray(val, dtype=float), rtol=0, atol=1e-9):
                probs.append(("column_after_second_call", name, f"expected {prov['root']} shifted by {[s2 / 2 for s2 in prov['shifts']]} samples"))
    return probs


def record_high_order(spec):
    from speckit import dsp
    rng = np.random.default_rng(spec["seed"])
    ev = []
    for order in spec["orders"]:
        h = (order + 1) // 2
        N = 4 * h + 40 if spec.get("kind") != "long" else 70001          # long records: block-wise implementations must be seamless
        deg = min(order, 6)
        coef = rng.uniform(-1, 1, size=deg + 1)
        t = np.arange(N, dtype=float)
        tt = (t - N / 2) / (N / 2)
        data = np.polyval(coef, tt)
        s = float(rng.uniform(-3, 3)) if spec["kind"] in ("frac", "long") else float(rng.integers(-3, 4)) + float(rng.choice([0.0, 0.5, 0.125]))
        if spec["kind"] == "tiny":
            # shifts whose fractional part s - floor(s) rounds to exactly 1.0 (tiny negative), or to the smallest positive fractions
            s = float(rng.choice([-2.0 ** -54, -1e-17, 0.3 - 0.1 - 0.2, -2.0 ** -60, 2.0 ** -54, 1e-17, -1.0 - 2.0 ** -53]))
        fr = np.array([s - np.floor(s)])
        taps = dsp.lagrange_taps(fr, h)[0]
        qsum = abs(float(np.sum(taps)) - 1.0)
        args_s = np.full(N, s)
        args_s0 = args_s.copy()
        d0 = data.copy()
        out = np.asarray(dsp.timeshift(data, s, order=order), dtype=float) if s != 0 else data
        outv = np.asarray(dsp.timeshift(data, args_s, order=order), dtype=float) if s != 0 else data
        outv2 = np.asarray(dsp.timeshift(data, args_s, order=order), dtype=float) if s != 0 else data
        si = int(np.floor(s))
        n = np.arange(N)
        interior = (n + si - (h - 1) >= 0) & (n + si + h <= N - 1)
        truth = np.polyval(coef, (t + s - N / 2) / (N / 2))
        scale = max(1.0, float(np.abs(data).max())) * max(1.0, float(np.abs(taps).sum()))
        qres = float(np.max(np.abs(out - truth)[interior]) / scale) if interior.any() else 0.0
        qpath = float(np.max(np.abs(out - outv)[interior]) / scale) if interior.any() else 0.0
        qloc = qint = 0
        if spec.get("kind") == "long":
            # a record with a dynamic range of 1e12 (isolated glitches on a 1e-3 noise floor): every interior output sample is the
            # LOCAL Lagrange interpolant - its error is relative to the samples under its own stencil, not to the record's maximum -
            # and an integer shift is an exact displacement
            g = 1e-3 * rng.standard_normal(N)
            g[rng.integers(200, N - 200, size=6)] += 1e9
            og = np.asarray(dsp.timeshift(g, s, order=order), dtype=float)
            idx = np.concatenate([rng.integers(2 * h + 4, N - 2 * h - 4, size=4000), np.arange(2 * h + 4, 2 * h + 300)])
            stencil = idx[:, None] + si - (h - 1) + np.arange(2 * h)[None, :]
            loc = g[stencil] * taps[None, :]
            qloc = float(np.max(np.abs(og[idx] - loc.sum(axis=1)) / np.maximum(np.abs(loc).sum(axis=1), 1e-300)))
            k = int(rng.integers(1, 4)) * (1 if rng.random() < 0.5 else -1)
            oi = np.asarray(dsp.timeshift(g, float(k), order=order), dtype=float)
            nn = np.arange(h + 4, N - h - 4)
            qint = int(np.count_nonzero(oi[nn] != g[nn + k]))
        ev.append({"order": int(order), "qsum": traces.q(qsum, 2 ** 30), "qres": traces.q(qres, 2 ** 30), "qpath": traces.q(qpath, 2 ** 30),
                   "qrep": traces.q(float(np.max(np.abs(outv2 - outv))), 2 ** 30),
                   "same": int(np.array_equal(args_s, args_s0) and np.array_equal(data, d0)),
                   "qloc": traces.q(qloc, 2 ** 30), "qint": min(qint, 2 ** 30)})
    return {"meta": dict(spec), "c": {}, "ev": ev}


def long_delay(item):
    """The wrapper must apply seconds*fs samples exactly, also for long delays with a tiny fractional part."""
    import pandas as pd
    from speckit import dsp
    samples, fs = item
    n = int(abs(samples)) + 400
    rng = np.random.default_rng(5)
    x = np.cumsum(rng.standard_normal(n))
    df = pd.DataFrame({"a": x})
    seconds = samples / fs
    r = dsp.df_timeshift(df, fs, seconds, inplace=True)
    exp = dsp.timeshift(x, seconds * fs)
    return [] if np.array_equal(r["a"].to_numpy(), np.asarray(exp)) else [("wrapper_applies_seconds_times_fs_samples", samples, fs)]


def run(tier):
    V = common.Verdict(PID, tier, "model_checking")
    sd = common.seed()
    # TNs 6, 4, 2: records of exactly order+1 samples for h = 3, 2, 1 (a single interior sample)
    consts = dict(TNs=Raw("{8, 6, 4, 2}"), Hs=Raw("{1,2,3}"), Fracs=Raw("{<<0,1>>,<<1,4>>,<<1,2>>,<<3,4>>}"), EmitCases=True)
    if tier == "thorough":
        consts.update(TNs=Raw("{7, 9}"), Fracs=Raw("{<<0,1>>,<<1,4>>,<<1,2>>,<<3,4>>,<<1,3>>,<<2,3>>}"))     # eighths overflow 32 bits with the degree-5 record
    res = tlc.run_model("Timeshift", f"{PID}_model", constants=consts, invariants=INV, timeout=3600)
    if res.violated:
        raise tlc.TLCError(f"Timeshift.tla violates {res.violated}")
    V.model(res, "Timeshift.tla: exact taps, stencil/padding cases, both paths, every shift in -(N+2)..(N+2) + fraction")
    cases = res.json_prints()
    out = common.pmap(replay_case, cases, chunksize=64)
    for c, probs in zip(cases, out):
        V.case({k: c[k] for k in ("N", "h", "d", "sInt", "data", "alt")}, True)
        for (what, got, exp) in probs:
            reg = "zero" if (c["sInt"] == 0 and c["d"][0] == 0) else ("integer" if c["d"][0] == 0 else "fractional")
            V.violation(f"{PID}|replay|{what}|order={2*c['h']-1}|{reg}_shift",
                        {"kind": "timeshift_case", "case": c, "message": f"{what}: shift {c['sInt']}+{c['d']} order {2*c['h']-1} data {c['data']}: got {got}, exact {exp}"})
    V.sample({"case": {k: cases[len(cases) // 2][k] for k in ("N", "h", "d", "sInt", "data", "taps", "out")}})
    # DataFrame wrappers
    rw = tlc.run_model("DfWrapper", f"{PID}_wrapper", constants=dict(NRows=12, EmitCases=True), invariants=["OnlySelectedNumeric", "ChainShiftsOnce", "DuplicateSelectionIsIdempotent", "Emit"])
    if rw.violated:
        raise tlc.TLCError(f"DfWrapper.tla violates {rw.violated}")
    V.model(rw, "DfWrapper.tla: df_timeshift / df_detrend case table")
    wcases = [w for w in rw.json_prints() if w["cfg"]["fn"] == "timeshift"]
    out = common.pmap(wrapper_case, wcases, chunksize=16)
    for w, probs in zip(wcases, out):
        V.case(w["cfg"], True)
        for (what, got, exp) in probs:
            V.violation(f"{PID}|wrapper|{what}|sel={w['cfg']['sel']}|trunc={w['cfg']['trunc']}",
                        {"kind": "wrapper_case", "case": w, "message": f"df_timeshift {w['cfg']}: {what}: {got} vs {exp}"})
    for it in [(20000.1, 1.0), (1000.001, 4.0), (3.5, 8.0), (-2500.0001, 2.0)]:
        V.case({"long_delay": it}, True)
        for (what, a, b) in long_delay(it):
            V.violation(f"{PID}|wrapper|{what}|long_delay", {"kind": "long_delay", "item": list(it), "message": f"df_timeshift with seconds*fs = {a} (fs={b}) differs from timeshift(column, seconds*fs)"})
    # high orders
    rnd = random.Random(sd + 41)
    specs = [dict(seed=rnd.randrange(2 ** 31), kind=["frac", "mixed"][k % 2], orders=[1, 3, 5, 7, 9, 15, 31, 63, 111] if k % 2 == 0 else [11, 21, 41, 81, 101])
             for k in range(6 if tier == "quick" else 40)]
    specs.append(dict(seed=rnd.randrange(2 ** 31), kind="long", orders=[3, 31]))
    for k in range(2 if tier == "quick" else 8):       # shifts within 2^-53 of an integer, from below and above
        specs.append(dict(seed=rnd.randrange(2 ** 31), kind="tiny", orders=[1, 3, 7, 31, 1, 5, 31, 3]))
    trs = common.pmap(record_high_order, specs, chunksize=1)
    vd, tres = traces.validate("TimeshiftTrace", f"{PID}_trace", trs)
    V.model(tres, "TimeshiftTrace.tla (orders up to 111)")
    V.add("traces_validated_against_impl", len(trs))
    for t, v in zip(trs, vd):
        V.case(t["meta"], True)
        for (l, clause) in v:
            V.violation(f"{PID}|trace|{clause}|order={t['ev'][l-1]['order']}", {"kind": "timeshift_trace", "spec": t["meta"], "event": l,
                                                                                 "message": f"TimeshiftTrace rejected {t['ev'][l-1]}: {clause}"})
    V.assumptions += ["orders above 5 are covered by relations on quantised observations (taps sum, polynomial reproduction up to degree 6, path agreement), not by exact values"]
    return V.finish(rule="cases = every (record, order, integer part, fraction, alternating second shift) of Timeshift.tla + DfWrapper.tla table + high-order traces; distinct by content hash")


def replay(payload):
    common.use_repo()
    k = payload["kind"]
    if k == "timeshift_case":
        p = replay_case(payload["case"])
    elif k == "wrapper_case":
        p = wrapper_case(payload["case"])
    elif k == "long_delay":
        p = long_delay(tuple(payload["item"]))
    else:
        t = record_high_order(payload["spec"])
        vd, _ = traces.validate("TimeshiftTrace", f"{PID}_replay", [t])
        p = vd[0]
    print(p)
    return 1 if p else 0
