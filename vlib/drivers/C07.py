"""C07 - transfer-function estimates recover gain and phase with the right sign on every backend."""
from __future__ import annotations

import os

from .. import common, kernelcases as kc, resultcases as rc, tlc
from . import _result_common as R
from .C01 import replay_case

PID = "C07"
NAMES = {"Hxy", "Hyx", "tf", "cf", "cf_rad", "cf_deg", "coh"}


def run(tier):
    V = common.Verdict(PID, tier, "model_checking")
    sd = common.seed()
    # (1) sign of the cross statistics on the lattice, all backends (cross mode only; delays are among the impulse pairs)
    consts = dict(kc.KERNEL_CONSTANTS_SMALL, Modes={"csd"}, Ns={5}, Ls={2, 3, 4, 5}, Kmax=2, Wins={"rect", "asym"}, C2s={-1, 0, 1})
    res = tlc.run_model("Kernel", f"{PID}_kernel", constants=consts, invariants=kc.KERNEL_INVARIANTS, timeout=7200)
    if res.violated:
        raise tlc.TLCError(f"Kernel.tla violates {res.violated}")
    V.model(res, "Kernel.tla cross mode at w in {pi/3, pi/2, 2pi/3}: Im(X conj Y) with the SciPy sign")
    cases = res.json_prints()
    out = common.pmap(replay_case, cases, chunksize=256)
    nzi = 0
    for case, o in zip(cases, out):
        nzi += case["exp"]["xy"][1] != 0
        V.case({k: case[k] for k in ("x", "y", "L", "D", "win", "c2", "order")}, case["exp"]["xy"][1] != 0)
        for label, cls, got, bad in o:
            if "mu_i" in bad or "mu_r" in bad or cls.startswith("raises"):
                V.violation(f"{PID}|replay|{label}|{cls}", {"kind": "kernel_case", "backend": label, "case": case, "got": got,
                                                            "message": f"{label}: cross statistics {got}, exact {kc.expected(case)}"})
    V.set("kernel_cases_with_nonzero_imaginary_part", nzi)
    # (2) Hxy = conj(XY)/XX and its phase/magnitude views
    res2, gcases = R.grid_cases(f"{PID}_grid")
    V.model(res2, "Result.tla scope=grid (HTimesGxxIsGyx, CfIsMagnitudeOfH)")
    R.replay_grid(V, PID, [c for c in gcases if c["iscsd"]], NAMES, "grid")
    # (3) gains and delays at scale, three backends
    os.environ["NUMBA_ENABLE_CUDASIM"] = "1"
    try:
        trs = R.run_traces(V, PID, tier, sd,
                           lambda rnd: [("gain", rnd.choice([-2.5, 0.3, 7.0])), ("delay", rnd.choice([1, 2])), ("delay", rnd.choice([3, 5, 8])), ("tiny", rnd.choice([-40, -30, -20])), ("delaysingle", 4), ("delayline",)],
                           n_quick=12, n_thorough=72, backends=("numba", "numpy", "numba", "numpy", "numba", "cuda"),
                           # long records, short segments: bins with K far above the NumPy kernels' chunk sizes ("identically whichever backend")
                           extra=[dict(N=150000, fs=1.0, data="drift", sched="ltf", win="hann", order=o, backend="numpy", Jdes=12, Kdes=20, Lmin=1, psll=120)
                                  for o in ((0, 2) if tier == "quick" else (-1, 0, 1, 2))])
    finally:
        os.environ.pop("NUMBA_ENABLE_CUDASIM", None)
    asserted = sum(1 for t in trs for e in t["ev"] if e["t"] == "delay" and e["L"] >= 32 * e["d"] and e["K"] >= 4)
    V.set("delay_bins_asserted", asserted)
    if asserted == 0:
        raise tlc.TLCError("no delay bin satisfied the premise L >= 32 d (vacuous)")
    V.assumptions += ["delay clause asserted on bins with L >= 32 d (the premise d << L); bound 0.245 rad / 25 % covers the random error of the estimate (probe: <= 0.04 rad / 5 %)",
                      "cuda backend = numba CUDA simulator"]
    return V.finish(rule="cases = cross-mode terminal states of Kernel.tla (sign of Im) + Result grid x transfer-function attributes + recorded gain/delay analyses on three backends; non-trivial = non-zero imaginary part / asserted delay bins")


def replay(payload):
    common.use_repo()
    if payload["kind"] == "kernel_case":
        from . import C01
        return C01.replay(payload)
    if payload["kind"] == "result_grid":
        case = payload["case"]
        case["exp"] = {payload["name"]: payload["expected_def"]}
        case["measure"] = {}
        p = rc.replay_grid_case(case, {payload["name"]})
        print(p)
        return 1 if p else 0
    return R.replay_trace(payload)
