"""C04 - schedulers; see _sched_common.py (shared with C02-C04) and DESIGN.md."""
from . import _sched_common

PID = "C04"


def run(tier):
    return _sched_common.run(PID, tier, with_search=(PID == "C04"))


def replay(payload):
    return _sched_common.replay(payload)
