"""C13 - inputs are sanitised, never modified, layout-independent; finite inputs give finite outputs.

Input.tla (ownership / aliasing / sanitising state machine) is model-checked in both variants (in-place
sanitising reproduces the hazard, copy-on-sanitise satisfies CallerUntouched); every scenario of the model
(layout x dtype x memory order x kind and position of non-finite samples) is materialised as a real NumPy
object and run through the analyzer on every backend and detrend order."""
from __future__ import annotations

import numpy as np

from .. import common, tlc

PID = "C13"
N = 64
INV = ["CallerUntouched", "AnalyzerSeesZeroFilled", "SharedOnlyIfNeverWritten", "AliasDefinitionsAgree", "Emit"]
BASE_ATTRS = ("XX", "YY", "XY", "M2", "S2", "S12", "f", "L", "K")


def base_record(seed=0):
    rng = np.random.default_rng(1234 + seed)
    t = np.arange(N)
    x = np.round(rng.standard_normal(N) * 4) / 4 + 0.5
    y = np.round((0.5 * x + rng.standard_normal(N)) * 4) / 4 - 0.02 * t
    return x, y


def materialise(inp, x, y):
    """Build the caller's object for a model scenario.  Returns (obj, list of underlying arrays to watch)."""
    dt = {"f64": np.float64, "f32": np.float32, "i64": np.int64, "f128": np.longdouble, "obj": object}[inp["dtype"]]
    if inp["dtype"] == "i64":
        x, y = np.round(x * 4), np.round(y * 4)
    bad = {"nan": np.nan, "posinf": np.inf, "neginf": -np.inf, "huge": np.longdouble("1e400")}[inp["kind"]]
    if inp["dtype"] == "obj":
        bad = None                                   # a gap in a list of readings
    pos = {1: 0, 4: N - 1}
    chans = [x.astype(dt), y.astype(dt)]
    for (c, p) in inp["bad"]:
        chans[c - 1][pos[p]] = bad

    def lay1(a, mem):
        if mem == "C":
            return np.ascontiguousarray(a)
        if mem == "strided":
            buf = np.zeros(2 * a.size, dtype=a.dtype)
            buf[::2] = a
            return buf[::2]
        if mem == "negstride":
            return np.ascontiguousarray(a[::-1])[::-1]
        raise ValueError(mem)
    lay = inp["layout"]
    mem = inp["mem"]
    if lay == "1d":
        a = lay1(chans[0], mem)
        return a, [a.base if a.base is not None else a]
    if lay in ("list", "tuple"):
        arrs = [np.ascontiguousarray(c) for c in chans]
        return (list(arrs) if lay == "list" else tuple(arrs)), arrs
    m = np.vstack(chans) if lay == "2xN" else np.vstack(chans).T
    if mem == "C":
        a = np.ascontiguousarray(m)
    elif mem == "F":
        a = np.asfortranarray(m)
    elif mem == "strided":
        buf = np.zeros((m.shape[0], 2 * m.shape[1]), dtype=m.dtype)
        buf[:, ::2] = m
        a = buf[:, ::2]
    else:
        a = np.ascontiguousarray(m[::-1, ::-1])[::-1, ::-1]
    return a, [a.base if a.base is not None else a]


def zero_filled(inp, x, y):
    dt = {"f64": np.float64, "f32": np.float32, "i64": np.int64, "f128": np.longdouble, "obj": object}[inp["dtype"]]
    if inp["dtype"] == "i64":
        x, y = np.round(x * 4), np.round(y * 4)
    chans = [x.astype(dt).astype(np.float64), y.astype(dt).astype(np.float64)]
    pos = {1: 0, 4: N - 1}
    for (c, p) in inp["bad"]:
        chans[c - 1][pos[p]] = 0.0
    return chans[0] if inp["layout"] == "1d" else np.vstack(chans)


def run_scenario(item):
    """Returns list of (clause, detail)."""
    import speckit
    inp, order, backend = item
    inp = dict(inp, bad=[tuple(b) for b in inp["bad"]])
    x, y = base_record()
    probs = []
    obj, watch = materialise(inp, x, y)
    before = [w.tobytes() for w in watch]
    kw = dict(order=order, backend=backend, Jdes=12, Kdes=4, olap=0.5, scheduler="ltf")
    try:
        r = speckit.compute_spectrum(obj, 2.0, **kw)
        rs = speckit.compute_single_bin(obj, 2.0, 0.25, L=N, **kw)          # K = 1: one segment covering the record
    except Exception as exc:
        return [("raises", f"{type(exc).__name__}: {exc}"[:100])]
    for w, b in zip(watch, before):
        if w.tobytes() != b:
            probs.append(("caller_array_modified", f"layout={inp['layout']} dtype={inp['dtype']} mem={inp['mem']} bad={inp['bad']}"))
    canon = speckit.compute_spectrum(zero_filled(inp, x, y), 2.0, **kw)
    if canon.iscsd != r.iscsd or canon.nf != r.nf:
        probs.append(("layout_changes_analysis_type", f"{r.iscsd} nf={r.nf} vs {canon.iscsd} nf={canon.nf}"))
    else:
        for a in BASE_ATTRS:
            if np.asarray(getattr(r, a)).tobytes() != np.asarray(getattr(canon, a)).tobytes():
                probs.append(("differs_from_zero_filled_record", a))
                break
    return probs


def observe(inp):
    """What the real analyzer did with the caller's object (one InputTrace event)."""
    import speckit
    inp = dict(inp, bad=[tuple(b) for b in inp["bad"]])
    x, y = base_record()
    obj, watch = materialise(inp, x, y)
    before = [w.tobytes() for w in watch]
    a = speckit.SpectrumAnalyzer(obj, 2.0, Jdes=12, Kdes=4, olap=0.5)
    shares = int(any(np.shares_memory(a.data, w) for w in watch))
    zf = zero_filled(inp, x, y)
    return {"layout": inp["layout"], "dtype": inp["dtype"], "mem": inp["mem"], "nbad": len(inp["bad"]), "shares": shares,
            "abad": int(np.count_nonzero(~np.isfinite(a.data))), "changed": int(any(w.tobytes() != b for w, b in zip(watch, before))),
            "zeroed": int(np.array_equal(np.asarray(a.data), zf))}


def observe_chunk(inps):
    return {"meta": {"n": len(inps)}, "c": {}, "ev": [observe(i) for i in inps]}


FINITE_ATTRS = ["Gxx", "Gyy", "Gxy", "ENBW", "psd", "asd", "ps", "csd", "Gyx", "Hxy", "Hyx", "coh", "ccoh", "cs", "tf", "cf",
                "cf_rad", "cf_deg", "cf_rad_unwrapped", "cf_deg_unwrapped", "GyyCx", "GyyRx", "GyySx", "XX_mean", "YY_mean",
                "XY_M2", "XY_emp_var", "XY_emp_dev", "Gxx_emp_dev", "Gxy_emp_dev", "Gxx_dev", "Gyy_dev", "Gxx_error", "Gyy_error"]
POSCOH_ATTRS = ["Gxy_dev", "Hxy_dev", "coh_dev", "Gxy_error", "Hxy_mag_error", "Hxy_rad_error", "Hxy_deg_error", "coh_error"]


def finite_scenario(item):
    """Finite inputs (all-zero, constant, identical channels, random): every estimate finite, in two access orders.
    plan "N64": default window on a short record; "hann"/"bartlett": a coarse plan on a longer record whose top bins have
    L = 2, where these windows vanish identically (sum w^2 = 0), plus single-bin requests with L = 1, 2, 3."""
    import speckit
    kind, mode, order, backend, first = item[:5]
    plan = item[5] if len(item) > 5 else "N64"
    n = N if plan == "N64" else 5000
    rng = np.random.default_rng(7)
    a = {"zero": np.zeros(n), "const": np.full(n, 3.0), "random": rng.standard_normal(n), "ramp": np.arange(n, dtype=float)}[kind]
    b = {"zero": np.zeros(n), "const": np.full(n, -2.0), "random": a.copy(), "ramp": rng.standard_normal(n)}[kind]
    data = a if mode == "auto" else np.vstack([a, b])
    probs = []

    def scan(r, tag):
        names = (POSCOH_ATTRS + FINITE_ATTRS) if first == "errors_first" else (FINITE_ATTRS + POSCOH_ATTRS)
        vals = {}
        for nm in names:
            vals[nm] = getattr(r, nm)
        if first == "frame_first":
            r.to_dataframe()
            vals = {nm: getattr(r, nm) for nm in names}
        coh = vals["coh"] if mode == "csd" else None
        for nm in FINITE_ATTRS:
            v = vals[nm]
            if v is not None and not np.all(np.isfinite(v)):
                probs.append(("non_finite_output" + tag, nm))
        if mode == "csd":
            pos = np.asarray(coh) > 0
            for nm in POSCOH_ATTRS:
                v = np.asarray(vals[nm])
                if not np.all(np.isfinite(v[pos])):
                    probs.append(("non_finite_error_bar_at_positive_coherence" + tag, nm))

    with np.errstate(all="ignore"):
        if plan == "N64":
            scan(speckit.compute_spectrum(data, 1.0, order=order, backend=backend, Jdes=10, Kdes=3, olap=0.5, scheduler="ltf"), "")
        else:
            win = "hann" if plan == "hann" else np.bartlett
            sched = ["ltf", "lpsd", "vectorized_ltf"][(order + 1) % 3]
            an = speckit.SpectrumAnalyzer(data, 10.0, order=order, backend=backend, Jdes=8, Kdes=3, olap=0.5, scheduler=sched, win=win)
            r = an.compute()
            if int(np.min(r.L)) > 2:
                probs.append(("harness_expected_a_bin_with_L_2", "L"))
            scan(r, "")
            for L in (1, 2, 3):
                scan(an.compute_single_bin(2.0, L=L), f"_single_bin_L{L}")
    return probs


def run(tier):
    V = common.Verdict(PID, tier, "model_checking")
    r0 = tlc.run_model("Input", f"{PID}_inplace", constants=dict(SanitiseInPlace=True, NLen=4, EmitCases=False), invariants=INV)
    V.set("hazard_model_violates", r0.violated)
    if "CallerUntouched" not in r0.violated:
        raise tlc.TLCError("Input.tla with in-place sanitising should violate CallerUntouched (vacuity guard)")
    res = tlc.run_model("Input", f"{PID}_model", constants=dict(SanitiseInPlace=False, NLen=4, EmitCases=True), invariants=INV)
    if res.violated:
        raise tlc.TLCError(f"Input.tla (copy on sanitise) violates {res.violated}")
    V.model(res, "Input.tla, copy-on-sanitise (the in-place variant is run first and must violate CallerUntouched)")
    scns = [j["inp"] for j in res.json_prints()]
    orders = [-1, 0, 1, 2] if tier == "thorough" else [0, 2]
    items = [(s, o, b) for s in scns for o in orders for b in ("numba", "numpy")]
    if tier == "quick":
        items = [it for k, it in enumerate(items) if (k % 2 == 0) or it[0]["bad"] or it[0]["mem"] == "C"]
    out = common.pmap(run_scenario, items, chunksize=16)
    for (s, o, b), probs in zip(items, out):
        V.case({"inp": s, "order": o, "backend": b}, True)
        for clause, detail in probs:
            ali = "aliasing_layout" if (s["dtype"] == "f64" and s["layout"] in ("1d", "2xN") and s["mem"] == "C") else "copying_layout"
            V.violation(f"{PID}|scenario|{clause}|{ali}|{'nonfinite' if s['bad'] else 'finite'}|{b}",
                        {"kind": "input_scenario", "inp": s, "order": o, "backend": b, "clause": clause, "detail": detail,
                         "message": f"{clause}: {detail} (scenario {s}, order={o}, backend={b})"})
    V.sample({"scenario": items[len(items) // 2][0], "order": items[len(items) // 2][1]})
    # trace validation: the observed ownership / sanitising outcome of every scenario against Input.tla
    from .. import traces
    chunks = [scns[k::8] for k in range(8)]
    trs = common.pmap(observe_chunk, chunks, chunksize=1)
    vd, tres = traces.validate("InputTrace", f"{PID}_trace", trs, constants=dict(SanitiseInPlace=False, NLen=4, EmitCases=False), spec="TSpec")
    V.model(tres, "InputTrace.tla (observed buffer ownership and sanitising of every scenario)")
    V.add("traces_validated_against_impl", len(trs))
    for t, v in zip(trs, vd):
        for (l, clause) in v:
            e = t["ev"][l - 1]
            V.violation(f"{PID}|trace|{clause}|{e['layout']}|{e['dtype']}|{e['mem']}|{'nonfinite' if e['nbad'] else 'finite'}",
                        {"kind": "input_trace", "event": e, "message": f"InputTrace rejected {e}: {clause}"})
    fin = [(k, m, o, b, f) for k in ("zero", "const", "random", "ramp") for m in ("auto", "csd") for o in (-1, 0, 1, 2)
           for b in ("numba", "numpy") for f in ("values_first", "errors_first", "frame_first")]
    fin = fin + [it + (pl,) for it in fin for pl in ("hann", "bartlett") if it[4] != "errors_first" or tier == "thorough"]
    out = common.pmap(finite_scenario, fin, chunksize=8)
    # one "finite" event per scenario, decided by InputTrace.tla (what was observed: counts of non-finite values)
    ftr = []
    for it, probs in zip(fin, out):
        V.case({"finite": it}, True)
        ftr.append({"meta": {"item": list(it), "probs": [list(p) for p in probs]}, "c": {},
                    "ev": [{"t": "finite", "nf": sum(1 for c_, _ in probs if c_.startswith("non_finite_output")),
                            "pc": sum(1 for c_, _ in probs if c_.startswith("non_finite_error_bar")),
                            "lmin": 0 if any(c_.startswith("harness_expected") for c_, _ in probs) else 1}]})
    fvd, fres = traces.validate("InputTrace", f"{PID}_finite", ftr, constants=dict(SanitiseInPlace=False, NLen=4, EmitCases=False), spec="TSpec")
    V.model(fres, "InputTrace.tla (finite records: non-finite outputs counted per scenario)")
    V.add("traces_validated_against_impl", len(ftr))
    for t, v in zip(ftr, fvd):
        it = t["meta"]["item"]
        for (l, clause) in v:
            names = sorted({nm for c_, nm in t["meta"]["probs"]})
            V.violation(f"{PID}|finite|{clause}|{it[0]}|{it[1]}|{names[0] if names else ''}|{it[4]}|{it[5] if len(it) > 5 else 'N64'}",
                        {"kind": "finite_scenario", "item": it, "clause": clause, "names": names,
                         "message": f"{clause}: attributes {names} for {it[0]} {it[1]} record, order={it[2]}, backend={it[3]}, access order {it[4]}, plan {it[5] if len(it) > 5 else 'N64'}: {t['meta']['probs'][:4]}"})
    V.assumptions += ["bitwise comparison with the zero-filled canonical run is made on the same backend and order (same machine code)",
                      "cf_db = -inf at zero coupling is the documented value of 20*log10(0) and is not counted as a non-finite output"]
    return V.finish(rule="scenarios = terminal states of Input.tla (layout x dtype x memory order x non-finite kind x positions) x orders x backends, plus finite degenerate records x access orders; all distinct by content; non-trivial = all")


def replay(payload):
    common.use_repo()
    if payload["kind"] == "input_scenario":
        p = run_scenario((payload["inp"], payload["order"], payload["backend"]))
    else:
        p = finite_scenario(tuple(payload["item"]))
    print(p)
    return 1 if p else 0
