"""C10 - analytic error bars are the Bendat-Piersol expressions (deterministic clauses)."""
from __future__ import annotations

from .. import common, resultcases as rc
from . import _result_common as R

PID = "C10"
NAMES = {"Gxx_dev", "Gyy_dev", "Gxy_dev", "Hxy_dev", "coh_dev", "Gxx_error", "Gyy_error", "Gxy_error", "Hxy_mag_error",
         "Hxy_rad_error", "Hxy_deg_error", "coh_error", "navg", "coh"}


def _hist_worker(item):
    return rc.replay_history(item)


def run(tier):
    V = common.Verdict(PID, tier, "model_checking")
    res, cases = R.grid_cases(f"{PID}_grid")
    V.model(res, "Result.tla scope=grid: squared Bendat-Piersol forms on the (g2, n, magnitude, phase) grid; DevIsEstimateTimesError, ErrorsScaleWithN, AutoUsesUnitCoherence")
    R.replay_grid(V, PID, cases, NAMES, "grid")
    V.sample({"grid_case": cases[len(cases) // 2]["bins"][0], "expected": {k: cases[len(cases) // 2]["exp"][k] for k in ("Gxy_dev", "Hxy_dev", "coh_dev", "Hxy_rad_error")}})
    R.run_traces(V, PID, tier, common.seed(), lambda rnd: [("single", 6), ("beat",), ("nearunity",)],
                 # 95 % overlap with short segments: more segments asked for than there are distinct positions (the count is capped at N-L+1);
                 # n in every formula is the number of segments actually averaged
                 extra=[dict(N=3000, fs=1.0, data="gain_noise", sched=sc, win="hann", order=0, backend="numba", Jdes=8, Kdes=5, Lmin=1, psll=120, olap=0.95)
                        for sc in ("ltf", "lpsd")])
    # the error bars are views of one estimate: they must not change with what was looked at (or plotted) before
    res2, results, hists = R.hist_cases(f"{PID}_hist", 2)
    V.model(res2, "Result.tla scope=hist (operation histories of length 2, incl. plots with error bands)")
    items = [(results[rid], h) for rid, h in hists if h[-1]["op"] in ("get", "frame") and (h[-1]["op"] == "frame" or h[-1]["name"] in NAMES)]
    out = common.pmap(_hist_worker, items, chunksize=32)
    for (case, h), probs in zip(items, out):
        V.case({"bins": case["bins"], "hist": h}, True)
        for p in probs:
            if p[1] in NAMES or p[1] == "":
                V.violation(f"{PID}|history|{'csd' if case['iscsd'] else 'auto'}|{h[0]['op']}:{h[0]['name']}|{p[1]}|{str(p[3]).split(' ')[0]}",
                            {"kind": "result_history", "case": case, "hist": h, "problem": p,
                             "message": f"history {[(o['op'], o['name']) for o in h]}: {p}"})
    V.assumptions += ["the Monte-Carlo clause (deviations match the observed spread over independent realisations) is a distributional statement and is not decided by this technique (DESIGN.md §0)",
                      "deviations are compared in squared form (no square roots in the specification)"]
    return V.finish(rule="cases = every result of Result.tla's grid (8 coherence values x 4 segment counts x magnitudes x phases x auxiliaries, auto and cross) x 13 error attributes; recorded analyses: every bin; distinct by content hash")


def replay(payload):
    common.use_repo()
    if payload["kind"] == "result_grid":
        case = payload["case"]
        case["exp"] = {payload["name"]: payload["expected_def"]}
        case["measure"] = {}
        p = rc.replay_grid_case(case, {payload["name"]})
        print(p)
        return 1 if p else 0
    if payload["kind"] == "result_history":
        p = rc.replay_history((payload["case"], payload["hist"]))
        print(p)
        return 1 if p else 0
    return R.replay_trace(payload)
