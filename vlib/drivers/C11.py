"""C11 - empirical error estimates are the segment scatter in spectral units (deterministic clauses)."""
from __future__ import annotations

from .. import common, kernelcases as kc, resultcases as rc, tlc
from . import _result_common as R
from .C01 import replay_case

PID = "C11"
NAMES = {"XY_M2", "XY_emp_var", "XY_emp_dev", "Gxx_emp_dev", "Gxy_emp_dev", "XX_mean", "YY_mean", "navg"}


def run(tier):
    V = common.Verdict(PID, tier, "model_checking")
    # the scatter itself: Kernel.tla with K = 1..3, repeated and unsorted starts, small magnitudes so that M2 is exact
    consts = dict(kc.KERNEL_CONSTANTS_SMALL, Ns={4}, Ls={1, 2, 3}, Kmax=3, Wins={"rect", "ramp"}, Orders={-1, 0, 1}, DataSet="small")
    if tier == "thorough":
        consts.update(Ns={4, 5}, Ls={1, 2, 3, 4}, Orders={-1, 0, 1, 2}, Wins={"rect", "ramp", "asym"})
    res = tlc.run_model("Kernel", f"{PID}_kernel", constants=consts, invariants=kc.KERNEL_INVARIANTS, timeout=7200)
    if res.violated:
        raise tlc.TLCError(f"Kernel.tla violates {res.violated}")
    V.model(res, "Kernel.tla K=1..3 (ScatterNonNeg, ScatterZeroIfK1, KernelEqualsDefinition incl. M2)")
    cases = [c for c in res.json_prints() if c["exp"]["m2ok"]]
    out = common.pmap(replay_case, cases, chunksize=256)
    nz = 0
    for case, o in zip(cases, out):
        nz += case["exp"]["m2"] > 0
        V.case({k: case[k] for k in ("x", "y", "L", "D", "win", "c2", "order", "mode")}, case["exp"]["m2"] > 0)
        for label, cls, got, bad in o:
            if "M2" in bad or cls.startswith("raises"):
                V.violation(f"{PID}|replay|{label}|{case['mode']}|K={len(case['D'])}|{cls}",
                            {"kind": "kernel_case", "backend": label, "case": case, "got": got,
                             "message": f"{label} scatter: got {got}, exact expectation {kc.expected(case)} (K={len(case['D'])}, D={case['D']})"})
    V.set("kernel_cases_with_nonzero_scatter", nz)
    # the mapping to spectral units
    res2, gcases = R.grid_cases(f"{PID}_grid")
    V.model(res2, "Result.tla scope=grid (EmpiricalMapping, NoneTable)")
    R.replay_grid(V, PID, gcases, NAMES, "grid")
    R.run_traces(V, PID, tier, common.seed(), lambda rnd: [("single", 4), ("identical",)], n_quick=8)
    # scatter at scale on every backend, including coherent lines far above the noise floor (large mean, tiny scatter)
    import random
    from .. import traces
    from . import C01
    specs = [dict(sp, data=("line" if k % 2 == 0 else sp["data"]), K=max(sp["K"], 3)) for k, sp in enumerate(C01.scale_specs(tier, common.seed() + 9)[: (60 if tier == "quick" else 600)])]
    trs = [t for t in common.pmap(C01.record_scale_trace, specs, chunksize=4) if t["ev"] and t["c"]["budget"] <= 1024]
    vd, tres = traces.validate("KernelTrace", f"{PID}_ktrace", trs)
    V.model(tres, "KernelTrace.tla (scatter clauses at scale)")
    V.add("traces_validated_against_impl", len(trs))
    for t, v in zip(trs, vd):
        V.case(t["meta"], True)
        for (l, clause) in v:
            if "scatter" in clause or clause == "agrees_with_first_event":
                V.violation(f"{PID}|ktrace|{t['ev'][l-1]['b']}|{clause}|{t['meta']['data']}",
                            {"kind": "scale_trace", "trace": t, "event": l, "clause": clause,
                             "message": f"KernelTrace rejected event {l} ({t['ev'][l-1]['b']}) clause {clause}: {t['ev'][l-1]} vs first {t['ev'][0]}"})
    V.sample({"kernel_case": {k: cases[len(cases) // 2][k] for k in ("x", "y", "L", "D", "win", "c2", "order", "mode", "exp")}})
    V.assumptions += ["agreement of the empirical with the analytic deviations for Gaussian noise is distributional and not decided here (DESIGN.md §0)",
                      "exact scatter only for cases whose quartic form fits 32-bit integers (m2ok); the reducers are order-independent"]
    return V.finish(rule="cases = terminal states of Kernel.tla with exactly evaluated scatter (K = 1..3, repeated/unsorted starts) + Result grid x empirical attributes + recorded analyses; non-trivial = scatter > 0; distinct by content hash")


def replay(payload):
    common.use_repo()
    if payload["kind"] == "kernel_case":
        from . import C01
        return C01.replay(payload)
    if payload["kind"] == "result_grid":
        case = payload["case"]
        case["exp"] = {payload["name"]: payload["expected_def"]}
        case["measure"] = {}
        p = rc.replay_grid_case(case, {payload["name"]})
        print(p)
        return 1 if p else 0
    return R.replay_trace(payload)
