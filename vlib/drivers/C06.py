"""C06 - spectral densities are calibrated: power, bandwidth and scaling laws."""
from __future__ import annotations

from .. import common, resultcases as rc
from . import _result_common as R

PID = "C06"
NAMES = {"ENBW", "ps", "psd", "cs", "csd", "Gxx", "Gyy", "Gxy", "asd"}


def run(tier):
    V = common.Verdict(PID, tier, "model_checking")
    res, cases = R.grid_cases(f"{PID}_grid")
    V.model(res, "Result.tla scope=grid (ENBW = fs*S2/S12, ps = psd*ENBW, density normalisation 2/(fs*S2))")
    R.replay_grid(V, PID, cases, NAMES, "grid")
    trs = R.run_traces(V, PID, tier, common.seed(),
                       lambda rnd: [("scale", rnd.choice([-3, 2, 4, 1]), rnd.choice([1, 2]), rnd.choice([1, -3, 4]), rnd.choice([1, 2])),
                                    ("relabel", rnd.choice([4, 1, 3]), rnd.choice([1, 2])), ("enbw",), ("sine", 6), ("tiny", rnd.choice([-40, -30, -16, 20]))],
                       n_quick=12, n_thorough=80)
    nsine = sum(1 for t in trs for e in t["ev"] if e["t"] == "sine")
    V.set("sinusoid_cases", nsine)
    V.assumptions += ["the sinusoid clause is a contract trace: the bound |ps/(A^2/2) - 1| <= 8*10^(-psll/20) (image line at side-lobe level) is evaluated by TLC on measured values; its analytic truth is not modelled (level 'other' for that clause)",
                      "ENBW is compared with fs*S2/S12 of a window recomputed by the recorder (numpy kaiser / hanning / scipy windows)"]
    return V.finish(rule="cases = Result grid x calibration attributes; recorded analyses with scaled channels (dyadic/integer factors), relabelled sampling rate, ENBW and sinusoid events; distinct by content hash")


def replay(payload):
    common.use_repo()
    if payload["kind"] == "result_grid":
        case = payload["case"]
        case["exp"] = {payload["name"]: payload["expected_def"]}
        case["measure"] = {}
        p = rc.replay_grid_case(case, {payload["name"]})
        print(p)
        return 1 if p else 0
    return R.replay_trace(payload)
