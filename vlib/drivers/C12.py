"""C12 - the Kaiser window delivers the requested side-lobe suppression (contract trace + pipeline model)."""
from __future__ import annotations

import math
import random

import numpy as np

from .. import common, tlc, traces
from ..tlc import Raw

PID = "C12"


def record_kaiser(spec):
    """One process: ascending and descending side-lobe levels on the same lengths; shim over the Kaiser function."""
    import speckit
    from speckit import analysis
    calls = []
    real = analysis.np_kaiser

    def shim(M, beta):
        w = real(M, beta)
        calls.append((int(M), float(beta)))
        return w
    analysis.np_kaiser = shim
    ev = []
    try:
        rng = np.random.default_rng(spec["seed"])
        for P in spec["pslls"]:
            for L in spec["Ls"]:
                csd = spec.get("mode", "auto") == "csd"
                N = L if (L >= 4096 or csd) else 2 * L + 17        # two-channel specs: one segment per evaluation (K = 1)
                b0 = float(rng.uniform(0.2 * L, 0.3 * L))              # fractional bin position of the sinusoid
                f0 = b0 / L
                ph = float(rng.uniform(0, 2 * math.pi))
                x = np.cos(2 * math.pi * f0 * np.arange(N) + ph)
                from scipy.signal.windows import kaiser as _spk
                wparam = {"str": "kaiser", "np": shim, "sp": _spk}[spec.get("winparam", "str")]       # every documented way of asking for the Kaiser window
                if csd:
                    x = np.vstack([x, 0.7 * np.cos(2 * math.pi * f0 * np.arange(N) + ph + 1.1)])
                a = speckit.SpectrumAnalyzer(x, 1.0, win=wparam, psll=P, order=-1 if not csd else spec.get("order", 0), olap=0.5, backend=spec["backend"])
                # another analyzer with a different side-lobe level is built before this one computes: analyzers share nothing
                speckit.SpectrumAnalyzer(x, 1.0, win="kaiser", psll=60 if P != 60 else 140, order=0, backend=spec["backend"])
                calls.clear()
                r0 = a.compute_single_bin(f0, L=L)
                if calls:
                    M, beta = calls[-1]
                    w = real(M, beta)[:-1]
                    Lw = len(w)
                    sym = float(np.max(np.abs(w[1:] - w[1:][::-1]))) if Lw > 2 else 0.0
                    peak = 1 if (Lw % 2 == 1 or (abs(w[Lw // 2] - 1.0) < 1e-12 and w[Lw // 2] >= w.max() - 1e-15)) else 0
                    ev.append({"t": "call", "psll": int(P), "L": int(L), "M": M, "qbeta": traces.q(beta), "qalpha": traces.q(float(a.config["alpha"])),
                               "wlen": int(round(float(r0.S12[0]) ** 0.5 / max(float(np.sum(w)), 1e-300) * Lw)) if float(np.sum(w)) > 0 else Lw,
                               "sym": traces.q(sym, 2 ** 30), "peak": peak, "rise": int(w[0] < w[1])})

                def powers(r):
                    return (float(r.XX[0]), float(r.YY[0]), float(abs(r.XY[0]))) if csd else (float(r.ps[0]),)
                p0 = powers(r0)
                alpha = float(a.config["alpha"])
                width = math.sqrt(1 + alpha * alpha)
                offs = [s * (width + d) for s in (-1, 1) for d in spec["deltas"]]
                for off in offs:
                    fb = b0 + off
                    if fb < 1.0 or fb > L / 2 - 1.0:
                        continue
                    r = a.compute_single_bin(fb / L, L=L)
                    rel = max(pv / pk for pv, pk in zip(powers(r), p0))
                    cdb = int(math.ceil(1000 * math.log10(max(rel, 1e-40))))      # centi-dB, rounded up
                    ev.append({"t": "leak", "psll": int(P), "L": int(L), "off100": int(abs(off) * 100), "cdb": cdb, "odd": int(L % 2)})
        # the full compute() path with progress reporting switched on: every bin's window must be the one requested
        if spec.get("mode", "auto") != "csd":
            for P in spec["pslls"][:2]:
                xx = rng.standard_normal(1200)
                a = speckit.SpectrumAnalyzer(xx, 1.0, win="kaiser", psll=P, order=0, olap=0.5, backend=spec["backend"], Jdes=12, Kdes=4,
                                             scheduler="ltf", verbose=True)
                calls.clear()
                r = a.compute()
                Ls = [int(v) for v in r.L]
                for (M, beta) in list(calls):
                    w = real(M, beta)[:-1]
                    Lw = len(w)
                    js = [j for j, Lj in enumerate(Ls) if Lj == M - 1]
                    sym = float(np.max(np.abs(w[1:] - w[1:][::-1]))) if Lw > 2 else 0.0
                    peak = 1 if (Lw % 2 == 1 or (abs(w[Lw // 2] - 1.0) < 1e-12 and w[Lw // 2] >= w.max() - 1e-15)) else 0
                    wl = Lw
                    if js and float(np.sum(w)) > 0:
                        wl = int(round(float(r.S12[js[0]]) ** 0.5 / float(np.sum(w)) * Lw))
                    ev.append({"t": "call", "psll": int(P), "L": int(M - 1), "M": int(M), "qbeta": traces.q(beta), "qalpha": traces.q(float(a.config["alpha"])),
                               "wlen": wl, "sym": traces.q(sym, 2 ** 30), "peak": peak if Lw > 2 else 1, "rise": int(w[0] < w[1]) if Lw > 2 else 1})
    finally:
        analysis.np_kaiser = real
    return {"meta": dict(spec), "c": {}, "ev": ev}


def run(tier):
    V = common.Verdict(PID, tier, "other")
    sd = common.seed()
    res = tlc.run_model("Kaiser", f"{PID}_model", constants=dict(Pslls=Raw("{40, 60, 80, 100, 120, 140, 160, 180, 200}"), KLs=Raw("{64, 101, 512}")),
                        invariants=["AlphaMonotone", "AlphaRange", "WindowHasLSamples"])
    if res.violated:
        raise tlc.TLCError(f"Kaiser.tla violates {res.violated}")
    V.model(res, "Kaiser.tla construction pipeline (alpha -> beta -> L+1 points -> drop last)")
    rnd = random.Random(sd + 71)
    deltas = [0.05, 0.5, 1.3, 2.7, 5.1, 9.9, 17.3, 31.0] if tier == "quick" else [0.02, 0.05, 0.3, 0.5, 0.9, 1.3, 2.0, 2.7, 3.9, 5.1, 7.7, 9.9, 13.1, 17.3, 24.0, 31.0, 47.0, 80.0, 150.0, 400.0]
    up = [40, 60, 80, 100, 120, 140, 160, 180, 200]
    specs = []
    for k in range(4 if tier == "quick" else 16):
        ps = up if k % 2 == 0 else list(reversed(up))
        Ls = [64, 101, 512] if k % 2 == 0 else [100, 4096]
        if k == 1:
            Ls = Ls + [65536]
        specs.append(dict(seed=rnd.randrange(2 ** 31), pslls=ps if tier == "thorough" else ps[::2] + [200], Ls=Ls, deltas=deltas, backend=["numba", "numpy"][k % 2],
                          winparam=["str", "sp", "np", "str"][k % 4]))
    # two-channel records, one segment per evaluation, many evaluations on the same analyzer (every order on the NumPy and Numba paths)
    for k in range(4 if tier == "quick" else 16):
        specs.append(dict(seed=rnd.randrange(2 ** 31), pslls=[60, 120, 200] if k % 2 else [200, 100, 40], Ls=[512, 1000] if k % 2 else [4096, 333], deltas=deltas,
                          backend=["numpy", "numba"][(k // 2) % 2], winparam="str", mode="csd", order=-1))       # (any detrending subtracts a constant or ramp from the sinusoid, whose own spectrum is not the window's side lobe)
    trs = common.pmap(record_kaiser, specs, chunksize=1)
    vd, tres = traces.validate("KaiserTrace", f"{PID}_trace", trs, constants=dict(Pslls=Raw("{40}"), KLs=Raw("{64}")), spec="TSpec")
    V.model(tres, "KaiserTrace.tla (captured Kaiser calls + measured leakage)")
    V.add("traces_validated_against_impl", len(trs))
    nleak = 0
    worst = {}
    for t, v in zip(trs, vd):
        for e in t["ev"]:
            if e["t"] == "leak":
                nleak += 1
                worst[e["psll"]] = max(worst.get(e["psll"], -10 ** 9), e["cdb"])
            V.case(e, True)
        for (l, clause) in v:
            e = t["ev"][l - 1]
            own = clause.startswith("C12:") or clause.startswith("C05:") or clause.startswith("ANY:")
            if own:
                # how far beyond the P-1 allowance (leak events): the known finding is an excess below 1 dB
                exc = "" if e["t"] != "leak" else ("|excess_lt_1dB" if e["cdb"] + (e["psll"] - 1) * 100 < 100 else "|excess_ge_1dB")
                V.violation(f"{PID}|trace|{clause}|P={'ge155' if e['psll'] >= 155 else 'lt155'}|L={'le101' if e['L'] <= 101 else ('ge65536' if e['L'] >= 65536 else '102to65535')}{exc}",
                            {"kind": "kaiser_trace", "spec": t["meta"], "event": l, "message": f"KaiserTrace rejected {e}: {clause}"})
    V.set("leakage_measurements", nleak)
    V.set("worst_relative_response_centi_dB_by_psll", worst)
    V.sample({"events": trs[0]["ev"][:3]})
    V.assumptions += ["contract trace: TLA+ does not model why a Kaiser window has its side-lobe level; TLC evaluates the property's own bound -(P-1) dB on measured responses beyond sqrt(1+alpha^2) bins, for side-lobe levels requested in ascending and descending order within one process",
                      "the construction (M = L+1, beta = pi*alpha(psll), last point dropped, DFT-even) is captured by a recording shim over speckit.analysis.np_kaiser"]
    return V.finish(rule="cases = (psll, L, sinusoid position/phase, analysis offset) grid, offsets beyond the main lobe on both sides; distinct by content hash",
                    explanation="Pipeline model Kaiser.tla checked by TLC; trace validation by KaiserTrace.tla of captured Kaiser calls (shape, length, symmetry) and of measured leakage against the property's bound. The analytic truth of the side-lobe level is not modelled.")


def replay(payload):
    common.use_repo()
    t = record_kaiser(payload["spec"])
    vd, _ = traces.validate("KaiserTrace", f"{PID}_replay", [t], constants=dict(Pslls=Raw("{40}"), KLs=Raw("{64}")), spec="TSpec")
    print(vd)
    return 1 if vd[0] else 0
