"""C09 - cross-spectral quantities satisfy their defining identities and bounds."""
from __future__ import annotations

import numpy as np

from .. import common, resultcases as rc
from . import _result_common as R

PID = "C09"
NAMES = {"coh", "ccoh", "Gxx", "Gyy", "Gxy", "Gyx", "csd", "GyyCx", "GyyRx", "GyySx", "Hxy", "Hyx"}


def degenerate(item):
    """Zero, constant and identical channels through the real analyzer: bounds and identities in floats (exactly representable cases)."""
    import speckit
    kind, order, backend, sched, first = item
    N = 256
    rng = np.random.default_rng(3)
    a = rng.standard_normal(N)
    x, y = {"zero_y": (a, np.zeros(N)), "zero_x": (np.zeros(N), a), "const": (np.full(N, 2.0), a), "identical": (a, a.copy()),
            "negated": (a, -a), "both_zero": (np.zeros(N), np.zeros(N))}[kind]
    probs = []
    with np.errstate(all="ignore"):
        r = speckit.compute_spectrum(np.vstack([x, y]), 1.0, order=order, backend=backend, scheduler=sched, Jdes=15, Kdes=4, olap=0.5)
        if first == "errors_first":          # the identities must not depend on which attributes were looked at before
            for nm in ("Gxy_dev", "Hxy_dev", "coh_dev", "coh_error", "Gxx_dev"):
                getattr(r, nm)
        elif first == "frame_first":
            r.to_dataframe()
        coh = np.asarray(r.coh)
        if not np.all(np.isfinite(coh)) or coh.min() < 0 or coh.max() > 1 + 1e-9:
            probs.append(("coherence_in_unit_interval", float(np.nanmax(coh)) if coh.size else 0.0))
        if kind in ("identical", "negated") and not np.allclose(coh[np.asarray(r.Gxx) > 0], 1.0, atol=1e-9):
            probs.append(("unit_coherence_for_linearly_dependent_channels", float(coh.min())))
        if kind in ("zero_y", "zero_x", "both_zero") and not np.all(coh == 0):
            probs.append(("zero_coherence_for_zero_channel", float(coh.max())))
        if not np.allclose(np.asarray(r.GyyCx) + np.asarray(r.GyyRx), np.asarray(r.Gyy), rtol=1e-12, atol=0):
            probs.append(("coherent_plus_residual_is_output", 0.0))
        gyy = np.asarray(r.Gyy)
        sx = np.asarray(r.GyySx)
        if not np.allclose(sx, gyy * (1 - coh), rtol=1e-9, atol=1e-12 * (gyy.max() if gyy.size else 1.0)):
            probs.append(("residual_is_Gyy_times_one_minus_coherence", float(np.max(np.abs(sx - gyy * (1 - coh))))))
    return probs


def run(tier):
    V = common.Verdict(PID, tier, "model_checking")
    res, cases = R.grid_cases(f"{PID}_grid")
    V.model(res, "Result.tla scope=grid (CoherenceBounds, CauchySchwarz, CondSpectraAddUp, ResidualIsOptimal, GyxIsConjugate ...)")
    R.replay_grid(V, PID, [c for c in cases if c["iscsd"]], NAMES, "grid")
    R.run_traces(V, PID, tier, common.seed(),
                 lambda rnd: [("swap",), ("alone",), ("gain", rnd.choice([-2.5, 0.3, 7.0]))],
                 # constant offsets 1e12 times the fluctuations (order 0, bins outside the 200 dB main lobe): a channel analysed alone
                 # and in a pair goes through different kernels, which must remove the segment mean equally well
                 extra=[dict(N=60000, fs=10.0, data="hugeoffset", sched="ltf", win="kaiser", order=0, backend=b, Jdes=40, Kdes=20, Lmin=1, psll=200, bmin=10.0)
                        for b in ("numba", "numpy")] +
                       # the same with a Hann window and bins inside the main lobe of DC (short segments on a long record): whatever error the
                       # mean removal leaves, it must be the same error alone and in a pair
                       # long record, short segments: bins with K far above the NumPy kernels' chunk sizes (8192 / 16384 / 32768)
                       [dict(N=150000, fs=1.0, data="drift", sched="ltf", win="hann", order=o, backend="numpy", Jdes=12, Kdes=20, Lmin=1, psll=120)
                        for o in ((2, 0) if tier == "quick" else (-1, 0, 1, 2))] +
                       # no detrending on records with DC offsets, every backend: alone and in a pair the channel goes through different kernels
                       [dict(N=3000, fs=1.0, data="offset", sched="ltf", win="hann", order=-1, backend=b, Jdes=30, Kdes=5, Lmin=1, psll=120,
                             variants=[("alone",), ("swap",)]) for b in ("numpy", "numba")] +
                       # bins within 1e-3 rad of DC and of Nyquist (long record, order -1): swapping the channels conjugates the cross spectrum there too
                       [dict(N=20000, fs=1.0, data="delay_coupled", sched="ltf", win="hann", order=o, backend=b, Jdes=60, Kdes=5, Lmin=1, psll=120,
                             variants=[("alone",), ("swap",), ("swapsingle",)]) for (o, b) in ((-1, "numba"), (0, "numpy"))] +
                       [dict(N=131072, fs=1.0, data="hugeoffset", sched="vectorized_ltf", win="hann", order=0, backend="numba", Jdes=40, Kdes=50, Lmin=1, psll=120,
                             variants=[("alone",), ("swap",)])])       # (no gain variant: inside the main lobe the rounding of the removed mean is not small)
    items = [(k, o, b, s, f) for k in ("zero_y", "zero_x", "const", "identical", "negated", "both_zero") for o in (-1, 0, 1, 2)
             for b in ("numba", "numpy") for s in ("ltf", "vectorized_ltf") for f in ("values_first", "errors_first", "frame_first")]
    out = common.pmap(degenerate, items, chunksize=4)
    for it, probs in zip(items, out):
        V.case({"degenerate": it}, True)
        for clause, val in probs:
            V.violation(f"{PID}|degenerate|{it[0]}|{clause}|{it[2]}",
                        {"kind": "degenerate", "item": it, "clause": clause, "value": val,
                         "message": f"{clause} fails for {it[0]} channels (order={it[1]}, backend={it[2]}, scheduler={it[3]}, access {it[4]}): {val}"})
    V.assumptions += ["coherence is taken as 0 where a channel has no power (the code's convention)",
                      "identities at scale are asserted on Q 2^20 quantised values normalised per bin (4-8 quanta)"]
    return V.finish(rule="cases = every two-channel result of Result.tla's grid x cross-spectral attributes; recorded analyses (4 schedulers x 4 windows x orders x backends) with swap/alone/gain variants, every bin; degenerate records; distinct by content hash")


def replay(payload):
    common.use_repo()
    if payload["kind"] == "result_grid":
        case = payload["case"]
        case["exp"] = {payload["name"]: payload["expected_def"]}
        case["measure"] = {}
        p = rc.replay_grid_case(case, {payload["name"]})
        print(p)
        return 1 if p else 0
    if payload["kind"] == "degenerate":
        p = degenerate(tuple(payload["item"]))
        print(p)
        return 1 if p else 0
    return R.replay_trace(payload)
