"""C20 - derived result quantities and exports are consistent views of one estimate.

Result.tla defines every attribute as an exact function of the base estimates (and the None table),
interpolated measurements, the export column set and copy/pickle as history operations.  TLC checks
the identities on every result of the scope; every result and every history is replayed on real
SpectrumResult objects."""
from __future__ import annotations

from .. import common, resultcases as rc
from . import _result_common as R

PID = "C20"


def _hist_worker(item):
    return rc.replay_history(item)


def run(tier):
    V = common.Verdict(PID, tier, "model_checking")
    res, cases = R.grid_cases(f"{PID}_grid")
    V.model(res, "Result.tla scope=grid (every attribute on the (g2, n, magnitude, phase) grid)")
    R.replay_grid(V, PID, cases, None, "grid")
    V.sample({"grid_case": {k: cases[len(cases) // 3][k] for k in ("iscsd", "fs", "bins")},
              "expected_Hxy": cases[len(cases) // 3]["exp"]["Hxy"], "expected_coh_dev": cases[len(cases) // 3]["exp"]["coh_dev"]})
    mh = 2 if tier == "quick" else 3
    res2, results, hists = R.hist_cases(f"{PID}_hist", mh)
    V.model(res2, f"Result.tla scope=hist (all operation histories of length {mh})")
    if tier == "thorough":
        res3, results3, hists3 = R.hist_cases(f"{PID}_histsim", 8, simulate="num=100", depth=9, seed=common.seed() + 1)
        V.model(res3, "Result.tla scope=hist, simulation of length-8 histories")
        hists += hists3
    items = [(results[rid], h) for rid, h in hists]
    out = common.pmap(_hist_worker, items, chunksize=32)
    for (case, h), probs in zip(items, out):
        V.case({"rid_bins": case["bins"], "hist": h}, True)
        for p in probs:
            where, name = p[0], p[1]
            opk = where.split(":")[1]
            V.violation(f"{PID}|history|{'csd' if case['iscsd'] else 'auto'}|nf={len(case['bins'])}|{opk}|{name}|{str(p[3]).split(' ')[0]}",
                        {"kind": "result_history", "case": case, "hist": h, "problem": p,
                         "message": f"history {[(o['op'], o['name']) for o in h]} on {'csd' if case['iscsd'] else 'auto'} result with {len(case['bins'])} bins: {p}"})
    # recorded analyses at scale: the view identities per bin
    R.run_traces(V, PID, tier, common.seed(), lambda rnd: [("alone",)], n_quick=8, n_thorough=48)
    V.set("histories_replayed", len(items))
    if hists:
        V.sample({"history": hists[len(hists) // 2][1], "on_result": hists[len(hists) // 2][0]})
    V.assumptions += ["transcendental attributes (cf_db, phases, asin error) are defined implicitly by the spec (10^(x/10)=cf^2, arg z, asin(sqrt r)/sqrt q) and the defining relation is evaluated numerically by the harness",
                      "results are built through the public SpectrumResult constructor from the model's base estimates (the analyzer path is bound by C05)"]
    return V.finish(rule="cases = every result of Result.tla's grid scope x every attribute, plus every operation history of the hist scope; distinct by content hash; all are non-trivial (non-zero base estimates)")


def replay(payload):
    common.use_repo()
    if payload["kind"] == "result_grid":
        case = payload["case"]
        case["exp"] = {payload["name"]: payload["expected_def"]}
        case["measure"] = {}
        probs = rc.replay_grid_case(case)
    elif payload["kind"] == "result_trace":
        return R.replay_trace(payload)
    else:
        probs = rc.replay_history((payload["case"], payload["hist"]))
    for p in probs:
        print("MISMATCH", p)
    return 1 if probs else 0
