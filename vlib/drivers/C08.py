"""C08 - segment detrending removes polynomial trends and nothing else."""
from __future__ import annotations

import random

import numpy as np

from .. import common, kernelcases as kc, tlc, traces
from .C01 import replay_case

PID = "C08"


def _custom_plan(**kw):
    """A user scheduler whose segment lengths repeat non-monotonically (64, 128, 64, 32, 128, 32): per-length caches are revisited."""
    N, fs = int(kw["N"]), float(kw["fs"])
    Ls = [64, 128, 64, 32, 128, 32]
    f = np.array([0.05, 0.11, 0.17, 0.23, 0.31, 0.41]) * fs
    D = []
    for L in Ls:
        K = max(2, int(round((N - L) / (0.5 * L) + 1)))
        D.append(np.round(np.arange(K) * (N - L) / (K - 1)).astype(np.int64))
    K = np.array([len(d) for d in D], dtype=np.int64)
    L = np.array(Ls, dtype=np.int64)
    return {"f": f, "r": fs / L, "b": f * L / fs, "m": f * L / fs, "L": L, "K": K, "navg": K.copy(), "D": D, "O": np.full(len(Ls), 0.5), "nf": len(Ls)}


def record_detrend(spec):
    """One record, every order in one process, trends of every degree in x / y / both."""
    import speckit
    rng = np.random.default_rng(spec["seed"])
    N = spec["N"]
    u = float(spec.get("unit", 1.0))         # physical unit of the record: the statement is scale free (1.0 or 2^-80: samples ~1e-24, trend ~1e-21)
    x = rng.standard_normal(N) * u
    y = 0.4 * x + rng.standard_normal(N) * u
    t = np.arange(N) / N
    amp = 1000.0 * u
    ev = []
    kw = dict(scheduler=(_custom_plan if spec["sched"] == "custom" else spec["sched"]), backend=spec["backend"], Jdes=spec["Jdes"], Kdes=spec["Kdes"], Lmin=spec["Lmin"], olap=spec["olap"])
    if spec["win"] == "kaiser":
        kw.update(win="kaiser", psll=spec["psll"])
    else:
        kw.update(win="hann")

    def run(data, p):
        with np.errstate(all="ignore"):
            return speckit.compute_spectrum(data, 1.0, order=p, **kw)
    def run_after_short_bin(data, p):
        # the same analysis on an analyzer that first served a single-bin request with a segment no longer than the order
        with np.errstate(all="ignore"):
            a = speckit.SpectrumAnalyzer(data, 1.0, order=p, **kw)
            a.compute_single_bin(0.1, L=max(1, p))
            return a.compute()
    for p in spec["orders"]:
        for mode in spec["modes"]:
            base = run(x if mode == "auto" else np.vstack([x, y]), p)
            if p >= 1:
                tr = amp * t ** p
                r = run_after_short_bin((x + tr) if mode == "auto" else np.vstack([x + tr, y - 0.5 * tr]), p)
                a2 = amp * amp * np.asarray(base.S12)
                allc = np.maximum.reduce([np.abs(r.XX - base.XX) / a2, np.abs(r.YY - base.YY) / a2, np.abs(r.XY - base.XY) / a2])
                ev.append({"p": int(p), "d": int(p), "ch": "both_after_short_single_bin", "mode": mode, "all": traces.q(float(allc.max()), 2 ** 30),
                           "low": traces.q(float(allc[:3].max()), 2 ** 30), "nf": int(r.nf), "minL": -1})
            s12 = np.asarray(base.S12)
            for d in range(0, min(p + 1, 3) + 1):
                tr = amp * t ** d
                for ch in (("x",) if mode == "auto" else ("x", "y", "both")):
                    xs = x + (tr if ch in ("x", "both") else 0)
                    ys = y + (-0.5 * tr if ch in ("y", "both") else 0)
                    r = run(xs if mode == "auto" else np.vstack([xs, ys]), p)
                    a2 = amp * amp * s12
                    ch_xx = np.abs(r.XX - base.XX) / a2
                    ch_yy = np.abs(r.YY - base.YY) / a2
                    ch_xy = np.abs(r.XY - base.XY) / a2
                    ch_m2 = np.abs(np.sqrt(r.M2) - np.sqrt(base.M2)) / a2
                    allc = np.maximum.reduce([ch_xx, ch_yy, ch_xy, ch_m2])
                    ev.append({"p": int(p), "d": int(d), "ch": ch, "mode": mode, "all": traces.q(float(allc.max()), 2 ** 30),
                               "low": traces.q(float(allc[:3].max()), 2 ** 30), "nf": int(r.nf), "minL": int(np.min(r.L)) if spec["sched"] != "custom" else -1})
    return {"meta": dict(spec), "c": {}, "ev": ev}


def run(tier):
    V = common.Verdict(PID, tier, "model_checking")
    sd = common.seed()
    consts = dict(kc.KERNEL_CONSTANTS_SMALL, DataSet="trend", Ns={5}, Ls={2, 3, 4, 5}, Kmax=2, Wins={"rect", "asym"}, C2s={-1, 0, 2})
    if tier == "thorough":
        consts.update(Ns={5, 6}, Ls={1, 2, 3, 4, 5}, C2s={-2, -1, 0, 1, 2}, Wins={"rect", "asym", "ramp"})       # L = 6 with cubic trends overflows 32 bits
    res = tlc.run_model("Kernel", f"{PID}_kernel", constants=consts, invariants=kc.KERNEL_INVARIANTS, timeout=7200)
    if res.violated:
        raise tlc.TLCError(f"Kernel.tla violates {res.violated}")
    V.model(res, "Kernel.tla on records carrying polynomial trends (DetrendAnnihilates, DetrendSensitive, OrderMinus1IsRaw, ResidualOrthogonal)")
    cases = res.json_prints()
    out = common.pmap(replay_case, cases, chunksize=256)
    zero = 0
    for case, o in zip(cases, out):
        zero += (case["exp"]["xx"] == 0)
        V.case({k: case[k] for k in ("x", "y", "L", "D", "win", "c2", "order", "mode")}, True)
        for label, cls, got, bad in o:
            V.violation(f"{PID}|replay|{label}|{case['mode']}|order={case['order']}|{cls}",
                        {"kind": "kernel_case", "backend": label, "case": case, "got": got,
                         "message": f"{label} on a record with a polynomial trend (order={case['order']}): got {got}, exact expectation {kc.expected(case)}"})
    V.set("cases_where_the_trend_is_annihilated_exactly", zero)
    V.sample({"kernel_case": {k: cases[len(cases) // 2][k] for k in ("x", "y", "L", "D", "win", "c2", "order", "mode", "exp")}})
    # metamorphic runs at scale
    rnd = random.Random(sd + 21)
    n = 8 if tier == "quick" else 48
    specs = []
    for k in range(n):
        sch = ["ltf", "lpsd", "vectorized_ltf", "new_ltf"][k % 4]
        specs.append(dict(seed=rnd.randrange(2 ** 31), N=rnd.choice([2000, 5000]), sched=sch, backend=["numba", "numpy"][(k // 4) % 2],
                          win=["kaiser", "hann"][k % 2], psll=rnd.choice([100, 200]), Jdes=rnd.choice([20, 40]), Kdes=rnd.choice([4, 10]),
                          Lmin=1 if sch == "lpsd" else rnd.choice([1, 16]), olap=0.5, orders=[1, 2, 0, -1] if k % 2 == 0 else [2, 1, -1, 0],
                          modes=["csd"] if k % 3 else ["auto", "csd"], unit=2.0 ** -80 if (k % 4) in (1, 2) else 1.0))
    for b in ("numba", "numpy"):           # a user-supplied plan with repeated, non-monotone segment lengths
        specs.append(dict(seed=rnd.randrange(2 ** 31), N=2000, sched="custom", backend=b, win="hann", psll=100, Jdes=20, Kdes=4, Lmin=1, olap=0.5,
                          orders=[2, 1, 0, -1], modes=["csd", "auto"], unit=1.0))
    trs = common.pmap(record_detrend, specs, chunksize=1)
    vd, tres = traces.validate("DetrendTrace", f"{PID}_trace", trs)
    V.model(tres, "DetrendTrace.tla (metamorphic runs through the analyzer)")
    V.add("traces_validated_against_impl", len(trs))
    for t, v in zip(trs, vd):
        V.case(t["meta"], True)
        for (l, clause) in v:
            e = t["ev"][l - 1]
            V.violation(f"{PID}|trace|{clause}|p={e['p']}|d={e['d']}|{e['ch']}|{t['meta']['backend']}",
                        {"kind": "detrend_trace", "spec": t["meta"], "event": l, "clause": clause, "ev": e,
                         "message": f"DetrendTrace rejected {e} of {t['meta']}: {clause}"})
    V.sample({"detrend_trace_events": trs[0]["ev"][:4]})
    V.assumptions += ["invariance is asserted at 2 quanta of 2^-30 relative to amp^2*S12 (probe: 1e-19), sensitivity at 1000 quanta in the three lowest bins (measured: >= 3e4 quanta for the weakest case, a cubic after a quadratic fit)"]
    return V.finish(rule="cases = terminal states of Kernel.tla on trend-bearing records (trend in x, y, both with different coefficients; degrees 0..3; orders -1..2) + metamorphic analyses (4 schedulers, 2 backends, every order in one process); distinct by content hash")


def replay(payload):
    common.use_repo()
    if payload["kind"] == "kernel_case":
        from . import C01
        return C01.replay(payload)
    t = record_detrend(payload["spec"])
    vd, _ = traces.validate("DetrendTrace", f"{PID}_replay", [t])
    print(vd)
    return 1 if vd[0] else 0
