"""Replay of Kernel.tla's finished calls into the real kernels (core.py / core_cuda.py).

A *case* is the JSON record printed by Kernel!Emit: the call's arguments and the exact expected
statistics as integers.  `expected(case)` turns the integers into the floats the code must return;
`run_backends(case, ...)` calls the real functions; `compare` lists the differing fields.
"""
from __future__ import annotations

import math

import numpy as np

OMEGA = {2: 0.0, 1: math.pi / 3, 0: math.pi / 2, -1: 2 * math.pi / 3, -2: math.pi}
FIELDS = ("MXX", "MYY", "mu_r", "mu_i", "M2")

KERNEL_CONSTANTS_SMALL = dict(
    Ns={5}, Ls={1, 2, 3, 4, 5}, Kmax=2, C2s={-2, -1, 0, 1, 2}, Orders={-1, 0, 1, 2},
    Modes={"auto", "csd"}, Wins={"rect", "ramp", "asym"}, Grain="segment", DataSet="small",
    EmitCases=True)

KERNEL_INVARIANTS = ["TypeOK", "GoertzelLoopInv", "KernelEqualsDefinition", "SlotsMatchDefinition",
                     "AutoIsDiagonal", "ScatterNonNeg", "ScatterZeroIfK1", "CauchySchwarz",
                     "DetrendAnnihilates", "DetrendSensitive", "OrderMinus1IsRaw", "ResidualOrthogonal",
                     "Emit"]


def sinw(c2: int) -> float:
    return math.sqrt(4 - c2 * c2) / 2.0


def expected(case) -> dict:
    """Exact expectation as floats.  M2 is None when the model could not evaluate it in 32 bits."""
    e = case["exp"]
    K = e["K"]
    S2 = float(case["scale"]) ** 2
    out = {
        "MXX": e["xx"] / (K * S2),
        "MYY": e["yy"] / (K * S2),
        "mu_r": e["xy"][0] / (2.0 * K * S2),
        "mu_i": e["xy"][1] * sinw(case["c2"]) / (K * S2),
        "M2": (e["m2"] / (K * K * S2 * S2)) if e["m2ok"] else None,
    }
    return out


def tolerances(exp: dict) -> dict:
    mag = 1.0 + max(abs(exp["MXX"]), abs(exp["MYY"]))
    t2 = 1e-9 * mag
    return {"MXX": t2, "MYY": t2, "mu_r": t2, "mu_i": t2, "M2": 1e-9 * mag * mag}


def _arrays(case):
    x = np.array(case["x"], dtype=np.float64)
    y = np.array(case["y"], dtype=np.float64)
    starts = np.array(case["D"], dtype=np.int64)
    w = np.array(case["win"], dtype=np.float64)
    return x, y, starts, w


def kernel_name(order: int, mode: str) -> str:
    base = {-1: "win_only", 0: "detrend0", 1: "poly", 2: "poly"}[order]
    return f"_stats_{base}_{'auto' if mode == 'auto' else 'csd'}"


def call_kernel(mod, name, case, **kw):
    """Call one of the 18 kernel entry points with the case's arguments."""
    x, y, starts, w = _arrays(case)
    L, order = int(case["L"]), int(case["order"])
    om = OMEGA[case["c2"]]
    fn = getattr(mod, name)
    args = [x] if case["mode"] == "auto" else [x, y]
    args += [starts, L, w, om]
    if order >= 1:
        from speckit.core import _build_Q
        args.append(_build_Q(L, order))
    return tuple(float(v) for v in fn(*args, **kw))


def compare(got, exp, tol) -> list:
    bad = []
    for f, g in zip(FIELDS, got):
        e = exp[f]
        if e is None:
            continue
        if not (abs(g - e) <= tol[f]):
            bad.append(f)
    return bad


def classify(bad, got, exp, tol) -> str:
    """A stable, discriminating label for a mismatch (used in finding signatures)."""
    g = dict(zip(FIELDS, got))
    if bad == ["mu_i"] and abs(g["mu_i"] + exp["mu_i"]) <= tol["mu_i"]:
        return "mu_i_conjugated"
    return "fields=" + "+".join(bad)
