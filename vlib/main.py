"""Entry point of every registered check:  ./check <Cxx> --tier quick|thorough  |  ./check replay <path>"""
import importlib
import json
import os
import sys
import traceback

sys.path.insert(0, os.path.dirname(os.path.dirname(os.path.abspath(__file__))))
os.environ.setdefault("PYTHONHASHSEED", "0")


def main(argv):
    from vlib import common, tlc
    if not argv:
        print(__doc__)
        return 2
    if argv[0] == "replay":
        payload = json.loads(open(argv[1]).read())
        mod = importlib.import_module(f"vlib.drivers.{payload['property']}")
        common.use_repo()
        return mod.replay(payload)
    pid = argv[0]
    tier = os.environ.get("VERIF_TIER", "quick")
    if "--tier" in argv:
        tier = argv[argv.index("--tier") + 1]
    if tier not in ("quick", "thorough"):
        print(f"unknown tier {tier}")
        return 2
    try:
        common.use_repo()
        mod = importlib.import_module(f"vlib.drivers.{pid}")
        return mod.run(tier)
    except common.CodeUnderTestError as exc:
        # the code under test raised on an in-domain input: a violation of the property being checked
        V = common.Verdict(pid, tier, "other")          # an aborted run covers nothing at the claimed level
        V.add("evaluations", 1)
        V.violation(f"{pid}|raises|{exc.where}|{exc.exc_type}",
                    {"kind": "exception_in_code_under_test", "where": exc.where, "exception": exc.exc_type, "message": exc.message,
                     "traceback": exc.tb_text, "input": exc.item_repr})
        V.cov["explanation"] = "the run stopped at the first exception raised by the code under test"
        V.cov["samples"].append({"input": exc.item_repr[:500]})
        print(exc.tb_text[-1500:])
        rc = V.finish(rule="aborted run")
        return rc
    except tlc.TLCError as exc:
        print(f"MACHINERY-FAILURE property={pid}: {exc}")
        return 2
    except Exception:
        traceback.print_exc()
        print(f"MACHINERY-FAILURE property={pid}: unexpected exception in the harness")
        return 2


if __name__ == "__main__":
    sys.exit(main(sys.argv[1:]))
