"""Entry point of every registered check:  ./check <Cxx> --tier quick|thorough  |  ./check replay <path>"""
import importlib
import json
import os
import sys
import traceback

sys.path.insert(0, os.path.dirname(os.path.dirname(os.path.abspath(__file__))))
os.environ.setdefault("PYTHONHASHSEED", "0")


def main(argv):
    from vlib import common, tlc
    if not argv:
        print(__doc__)
        return 2
    if argv[0] == "replay":
        payload = json.loads(open(argv[1]).read())
        mod = importlib.import_module(f"vlib.drivers.{payload['property']}")
        common.use_repo()
        return mod.replay(payload)
    pid = argv[0]
    tier = os.environ.get("VERIF_TIER", "quick")
    if "--tier" in argv:
        tier = argv[argv.index("--tier") + 1]
    if tier not in ("quick", "thorough"):
        print(f"unknown tier {tier}")
        return 2
    try:
        common.use_repo()
        mod = importlib.import_module(f"vlib.drivers.{pid}")
        return mod.run(tier)
    except tlc.TLCError as exc:
        print(f"MACHINERY-FAILURE property={pid}: {exc}")
        return 2
    except Exception:
        traceback.print_exc()
        print(f"MACHINERY-FAILURE property={pid}: unexpected exception in the harness")
        return 2


if __name__ == "__main__":
    sys.exit(main(sys.argv[1:]))
