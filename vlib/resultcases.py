"""Replay of Result.tla cases into the real SpectrumResult (spec -> code)."""
from __future__ import annotations

import copy
import warnings
import math
import pickle

import numpy as np

RESULT_INVARIANTS = ["CoherenceBounds", "CauchySchwarz", "CondSpectraAddUp", "ResidualIsOptimal", "PsIsPsdTimesEnbw",
                     "AsdSquaredIsPsd", "GyxIsConjugate", "CfIsMagnitudeOfH", "HTimesGxxIsGyx", "DevIsEstimateTimesError",
                     "ErrorsScaleWithN", "AutoUsesUnitCoherence", "NoneTable", "EmpiricalMapping", "MeasureAtGridIsTabulated",
                     "MeasureClamps", "CacheClosed", "EmitGrid", "EmitHist"]

EXTRA_KEYS = {"r", "b", "L", "K", "O", "D", "compute_t", "i"}
REL = 1e-9


def rat(p):
    return p[0] / p[1]


def cplx(z, s2):
    return complex(rat(z[0]), rat(z[1]) * math.sqrt(rat(s2)))


def build_result(case, overflow=False):
    """SpectrumResult from the model's base estimates (public constructor).
    overflow=True: the first bin carries the non-finite statistics a single-bin analysis of samples ~1e160 produces
    (|X|^2 overflows: XX = YY = inf, XY = inf+nan j, M2 = nan)."""
    from speckit.analysis import SpectrumResult
    bins = case["bins"]
    nf = len(bins)
    f = np.array([rat(b["f"]) for b in bins])
    fs = rat(case["fs"])
    navg = np.array([b["navg"] for b in bins], dtype=np.int64)
    D = [np.arange(int(k), dtype=np.int64) for k in navg]
    L = np.full(nf, 4, dtype=np.int64)
    d = {
        "f": f, "r": np.full(nf, fs / 4.0), "b": f * 4.0 / fs, "L": L, "K": navg + 3, "navg": navg, "D": D,      # K deliberately differs from navg: every formula is a function of the reported navg
        "O": np.zeros(nf), "XX": np.array([rat(b["xx"]) for b in bins]),
        "YY": np.array([rat(b["yy"]) for b in bins]),
        "XY": np.array([cplx(b["xy"], b["s2"]) for b in bins]),
        "S12": np.array([rat(b["S12"]) for b in bins]), "S2": np.array([rat(b["S2"]) for b in bins]),
        "M2": np.array([rat(b["m2"]) for b in bins]), "compute_t": np.zeros(nf),
    }
    if overflow:
        d["XX"][0] = np.inf
        d["YY"][0] = np.inf
        d["XY"][0] = complex(np.inf, np.nan)
        d["M2"][0] = np.nan
    return SpectrumResult(d, {}, bool(case["iscsd"]), fs)


def _close(a, b, scale=1.0):
    return abs(a - b) <= REL * max(scale, abs(a), abs(b)) + 1e-300


def check_value(val, defs, bins, name):
    """Compare an attribute value with the model's per-bin definitions.  Returns list of problems."""
    probs = []
    if defs[0]["k"] == "none":
        if val is not None:
            probs.append((name, -1, "expected None", repr(type(val))))
        return probs
    if val is None:
        return [(name, -1, "is None", defs[0]["k"])]
    arr = np.asarray(val)
    if arr.shape[:1] != (len(defs),):
        return [(name, -1, "shape", str(arr.shape))]
    prev = None
    for j, d in enumerate(defs):
        k = d["k"]
        v = arr[j]
        s2 = bins[j]["s2"]
        ok = True
        exp = None
        if k == "undef":
            continue
        if not np.all(np.isfinite(v)) and k not in ("db",):
            probs.append((name, j, "non-finite", repr(v)))
            continue
        if k == "real":
            exp = rat(d["v"])
            ok = (not np.iscomplexobj(v) or abs(v.imag) <= REL * max(1.0, abs(exp))) and _close(float(np.real(v)), exp)
        elif k == "int":
            exp = d["v"]
            ok = int(v) == exp
        elif k == "cplx":
            exp = cplx(d["v"], s2)
            ok = abs(complex(v) - exp) <= REL * max(1.0, abs(exp))
        elif k == "sq":
            exp = rat(d["v"])
            ok = float(v) >= 0 and _close(float(v) ** 2, exp)
        elif k == "db":
            exp = rat(d["v"])
            ok = (v == -np.inf) if exp == 0 else _close(10.0 ** (float(v) / 10.0), exp)
        elif k in ("arg", "argdeg"):
            z = cplx(d["v"], s2)
            ang = float(np.deg2rad(v)) if k == "argdeg" else float(v)
            if z == 0:
                ok = abs(math.remainder(ang, 2 * math.pi)) <= 1e-9
            else:
                ok = abs(math.remainder(ang - math.atan2(z.imag, z.real), 2 * math.pi)) <= 1e-9
            if name.endswith("_unwrapped"):
                if prev is not None and abs(ang - prev) > math.pi + 1e-9:
                    ok = False
                prev = ang
            else:
                ok = ok and -math.pi - 1e-12 <= ang <= math.pi + 1e-12
            exp = z
        elif k in ("asin", "asindeg"):
            # x = asin(sqrt s)/sqrt d  <=>  sin(x sqrt d)^2 = s, 0 <= x sqrt d <= pi/2 (compared in the squared
            # domain: sqrt is ill-conditioned at s = 0, where coh = 1 - 1e-16 gives x = 1e-8)
            x = float(np.deg2rad(v)) if k == "asindeg" else float(v)
            y = x * math.sqrt(rat(d["d"]))
            exp = rat(d["s"])
            ok = -1e-12 <= y <= math.pi / 2 + 1e-9 and abs(math.sin(y) ** 2 - exp) <= REL * 10
        elif k == "ccoh":
            dd = rat(d["d"])
            exp = 0j if dd == 0 else cplx(d["v"], s2) / math.sqrt(dd)
            ok = abs(complex(v) - exp) <= REL * max(1.0, abs(exp))
        if not ok:
            probs.append((name, j, f"value {v!r}", f"expected {exp!r} ({k})"))
    return probs


def replay_grid_case(case, names=None):
    """All attributes of one single-bin result.  Returns list of (name, bin, got, expected)."""
    res = build_result(case)
    probs = []
    for name, defs in case["exp"].items():
        if names is not None and name not in names:
            continue
        try:
            with np.errstate(all="ignore"):
                val = getattr(res, name)
        except Exception as exc:
            probs.append((name, -1, f"raises {type(exc).__name__}", str(exc)[:80]))
            continue
        probs += check_value(val, defs, case["bins"], name)
    if names is None or "measure" in names:
        probs += [(p[1], p[2], p[3], p[4]) for p in measure_checks(res, case, 0, None)]
        probs += [(p[1], p[2], p[3], p[4]) for p in tabulated_measure_checks(res, case, 0)]
    return probs


def measure_checks(res, case, step, only):
    probs = []
    meas = case.get("measure") if isinstance(case.get("measure"), dict) else {}
    for name, pairs in meas.items():
        if only is not None and name != only:
            continue
        # build_result stores navg + 3 in K: both integer columns must interpolate alike
        for attr in ((name, "K") if name == "navg" else (name,)):
            off = 3.0 if attr == "K" else 0.0
            for q, exp in pairs:
                qf = rat(q)
                try:
                    with np.errstate(all="ignore"):
                        got = res.get_measurement(qf, attr)
                except Exception as exc:
                    probs.append((f"step{step}:measure", attr, -1, f"raises {type(exc).__name__}", str(exc)[:80]))
                    break
                if isinstance(got, np.ndarray):
                    probs.append((f"step{step}:measure", attr, -1, "scalar query returned array", ""))
                    continue
                e = (rat(exp["v"]) if exp["k"] == "real" else cplx(exp["v"], case["bins"][0]["s2"])) + off
                if not (abs(got - e) <= REL * max(1.0, abs(e))):
                    probs.append((f"step{step}:measure", attr, -1, f"value at f={qf}: {got!r}", f"expected {e!r}"))
            qs = np.array([rat(q) for q, _ in pairs])
            if qs.size:
                got = res.get_measurement(qs, attr)
                if not (isinstance(got, np.ndarray) and got.shape == qs.shape):
                    probs.append((f"step{step}:measure", attr, -1, "array query shape", repr(got)))
                else:
                    ex = np.array([rat(e["v"]) if e["k"] == "real" else cplx(e["v"], case["bins"][0]["s2"]) for _, e in pairs]) + off
                    if not np.all(np.abs(got - ex) <= REL * np.maximum(1.0, np.abs(ex))):
                        probs.append((f"step{step}:measure", attr, -1, f"array query values {got!r}", f"expected {ex!r}"))
    return probs


def _data_bytes(res):
    return {k: v.tobytes() for k, v in res._data.items() if isinstance(v, np.ndarray) and v.dtype != object}


def _replay_unchanged(case, hist, overflow):
    """Result.tla: every operation leaves `res` UNCHANGED and its value depends on `res` alone.  Run the history and compare,
    after every step, (a) the stored statistics byte for byte with those the object was built from and (b) the value a `get`
    returns with the value the same attribute has on a freshly built object (bitwise, so that inf/nan statistics - the
    overflow twin - are covered too)."""
    res = build_result(case, overflow)
    base = _data_bytes(res)
    tag = "overflow_twin" if overflow else "result"
    probs = []
    for step, op in enumerate(hist):
        kind, name = op["op"], op.get("name", "")
        try:
            with np.errstate(all="ignore"), warnings.catch_warnings():
                warnings.simplefilter("ignore")
                if kind == "get":
                    val = getattr(res, name)
                    ref = getattr(build_result(case, overflow), name)
                    if (val is None) != (ref is None) or (val is not None and np.asarray(val).tobytes() != np.asarray(ref).tobytes()):
                        probs.append((f"step{step}:get", name, -1, f"{tag}: value depends on what was accessed before", ""))
                elif kind == "frame":
                    res.to_dataframe()
                elif kind == "measure" and not overflow:
                    res.get_measurement(float(res.f[0]), name)
                elif kind == "copy":
                    res = copy.copy(res)
                elif kind == "deepcopy":
                    res = copy.deepcopy(res)
                elif kind == "pickle":
                    res = pickle.loads(pickle.dumps(res, protocol=PICKLE_PROTOCOLS[step % len(PICKLE_PROTOCOLS)]))
        except Exception as exc:
            if not overflow:
                probs.append((f"step{step}:{kind}", name, -1, f"{tag}: raises {type(exc).__name__}", str(exc)[:100]))
            break
        now = _data_bytes(res)
        changed = sorted(k for k in base if now.get(k) != base[k])
        if changed:
            probs.append((f"step{step}:{kind}", name, -1, f"{tag}: stored statistics modified: {changed}", ""))
            base = now
    return probs


TABULATED = ("cf_rad", "cf_deg", "cf", "asd", "Hxy_rad_error", "Gxx", "coh", "Gxy")
PICKLE_PROTOCOLS = (0, 1, pickle.HIGHEST_PROTOCOL, 2)        # every pickle protocol is a public way of copying a result


def tabulated_measure_checks(res, case, step):
    """get_measurement on attributes with transcendental values: linear between the TABULATED values (Result.tla MeasureWeight)."""
    probs = []
    for name in TABULATED:
        with np.errstate(all="ignore"):
            tab = getattr(res, name)
        if tab is None:
            continue
        tab = np.asarray(tab)
        if not np.all(np.isfinite(tab)):
            continue
        f_tab = np.asarray(res.f, dtype=float)
        near = []                      # queries a hair (1e-6 relative) above each interior grid frequency: still strictly between two bins
        for j in range(len(f_tab) - 1):
            qn = float(f_tab[j]) * (1.0 + 1e-6) if f_tab[j] > 0 else 1e-9
            if f_tab[j] < qn < f_tab[j + 1]:
                near.append((qn, {"j": j + 1, "w": None, "wf": (qn - f_tab[j]) / (f_tab[j + 1] - f_tab[j])}))
        for q, wt in list(case.get("weights", [])) + near:
            j, w = wt["j"] - 1, (rat(wt["w"]) if wt.get("w") is not None else wt["wf"])
            want = tab[j] + w * (tab[j + 1] - tab[j]) if w != 0 else tab[j]
            try:
                got = res.get_measurement(q if isinstance(q, float) else rat(q), name)
            except Exception as exc:
                probs.append((f"step{step}:measure", name, -1, f"raises {type(exc).__name__}", str(exc)[:80]))
                break
            if not (abs(got - want) <= REL * max(1.0, abs(want))):
                probs.append((f"step{step}:measure", name, -1, f"value at f={q if isinstance(q, float) else rat(q)}: {got!r}", f"expected {want!r} (linear between tabulated values {tab[j]!r} and {tab[min(j + 1, len(tab) - 1)]!r})"))
                break
    return probs


def replay_history(item):
    """item = (case, hist).  Execute the operations on one real result; after every step compare the
    returned value with the definition and verify that arrays returned earlier were not mutated."""
    case, hist = item
    res = build_result(case)
    probs = []
    held = []          # (name, array object, bytes at return time)
    probs += _replay_unchanged(case, hist, False) + _replay_unchanged(case, hist, True)

    def hold(name, val):
        if isinstance(val, np.ndarray) and val.dtype != object:
            held.append((name, val, val.tobytes()))

    for step, op in enumerate(hist):
        kind, name = op["op"], op.get("name", "")
        try:
            with np.errstate(all="ignore"):
                if kind == "get":
                    val = getattr(res, name)
                    probs += [(f"step{step}:get", *p) for p in check_value(val, case["exp"][name], case["bins"], name)]
                    hold(name, val)
                elif kind == "measure":
                    probs += measure_checks(res, case, step, name)
                    probs += tabulated_measure_checks(res, case, step)
                elif kind == "frame":
                    df = res.to_dataframe()
                    cols = set(df.columns)
                    want = set(case["frame"])
                    model_names = set(case["exp"].keys())
                    if cols & model_names != want:
                        probs.append((f"step{step}:frame", "columns", -1, f"extra={sorted((cols & model_names) - want)} missing={sorted(want - cols)}", ""))
                    present_extra = {k for k in EXTRA_KEYS if k in res._data}
                    if not present_extra <= cols:          # plan fields are per-bin arrays too (D holds one start vector per bin)
                        probs.append((f"step{step}:frame", "columns", -1, f"missing plan columns {sorted(present_extra - cols)}", ""))
                    if cols - model_names - EXTRA_KEYS:
                        probs.append((f"step{step}:frame", "columns", -1, f"unexpected columns {sorted(cols - model_names - EXTRA_KEYS)}", ""))
                    if not np.array_equal(np.asarray(df.index, dtype=float), np.array([rat(b['f']) for b in case['bins']])):
                        probs.append((f"step{step}:frame", "index", -1, "index is not f", ""))
                    for c in sorted(cols & model_names):
                        probs += [(f"step{step}:frame", *p) for p in check_value(df[c].to_numpy(), case["exp"][c], case["bins"], c)]
                elif kind == "plot":
                    import matplotlib
                    matplotlib.use("Agg", force=True)
                    import matplotlib.pyplot as plt
                    try:
                        if name == "bode":
                            if res.iscsd:
                                res.plot("bode", errors=True, sigma=2, dB=(step % 2 == 0))
                        else:
                            res.plot("coh" if res.iscsd else "asd", errors=True, sigma=3)
                    finally:
                        plt.close("all")
                elif kind == "copy":
                    res = copy.copy(res)
                elif kind == "deepcopy":
                    res = copy.deepcopy(res)
                elif kind == "pickle":
                    res = pickle.loads(pickle.dumps(res, protocol=PICKLE_PROTOCOLS[step % len(PICKLE_PROTOCOLS)]))
        except Exception as exc:
            probs.append((f"step{step}:{kind}", name, -1, f"raises {type(exc).__name__}", str(exc)[:100]))
            break
        for nm, arr, b in held:
            if arr.tobytes() != b:
                probs.append((f"step{step}:{kind}", nm, -1, "previously returned array was mutated", ""))
                held = [h for h in held if h[1] is not arr]
    return probs
