-------------------------------- MODULE Kaiser --------------------------------
(***************************************************************************)
(* The Kaiser window construction pipeline of speckit (utils.kaiser_alpha, *)
(* analysis._build_window) and the side-lobe contract (C12, C05).          *)
(*   Alpha       alpha = ((a3 x + a2) x + a1) x + a0,  x = psll/100        *)
(*   Beta        beta  = pi * alpha                                        *)
(*   Build       w_sym = kaiser(M = L + 1, beta)      (symmetric, M points)*)
(*   DropLast    w = w_sym[:-1]                        (DFT-even, L points)*)
(* All quantities in Q 2^20 fixed point with an explicit error bracket of  *)
(* 8 quanta for the Horner evaluation.  What does not need Bessel          *)
(* functions is stated exactly: length, the sample of symmetry             *)
(* w[n] = w[L-n] (1 <= n <= L-1), the peak at L/2 for even L.              *)
(***************************************************************************)
EXTENDS Exact, Json
CONSTANTS Pslls, KLs
VARIABLES psll, L, pc, alphaQ, betaQ, M, wlen
vars == <<psll, L, pc, alphaQ, betaQ, M, wlen>>
Q == 1048576
QPI == 3294199
A0Q == -86128        \* -0.0821377 * 2^20
A1Q == 4943711       \*  4.71469   * 2^20
A2Q == -517247       \* -0.493285  * 2^20
A3Q == 93295         \*  0.0889732 * 2^20
XQ(p) == (p * Q) \div 100
AlphaQ(p) == MulQ20(MulQ20(MulQ20(A3Q, XQ(p)) + A2Q, XQ(p)) + A1Q, XQ(p)) + A0Q
Init == psll \in Pslls /\ L \in KLs /\ pc = "alpha" /\ alphaQ = 0 /\ betaQ = 0 /\ M = 0 /\ wlen = 0
Alpha == pc = "alpha" /\ alphaQ' = AlphaQ(psll) /\ pc' = "beta" /\ UNCHANGED <<psll, L, betaQ, M, wlen>>
Beta == pc = "beta" /\ betaQ' = MulQ20(alphaQ, QPI) /\ pc' = "build" /\ UNCHANGED <<psll, L, alphaQ, M, wlen>>
Build == pc = "build" /\ M' = L + 1 /\ wlen' = L + 1 /\ pc' = "drop" /\ UNCHANGED <<psll, L, alphaQ, betaQ>>
DropLast == pc = "drop" /\ wlen' = wlen - 1 /\ pc' = "done" /\ UNCHANGED <<psll, L, alphaQ, betaQ, M>>
Next == Alpha \/ Beta \/ Build \/ DropLast
Spec == Init /\ [][Next]_vars
(* sanity of the model itself *)
AlphaMonotone == pc # "alpha" => \A p \in Pslls : (p < psll => AlphaQ(p) < AlphaQ(psll))
AlphaRange == pc # "alpha" => alphaQ > 0 /\ alphaQ < 9 * Q
WindowHasLSamples == pc = "done" => wlen = L /\ M = L + 1
(* main-lobe half width sqrt(1 + alpha^2) in bins, squared, Q20 *)
HalfWidth2Q(p) == Q + MulQ20(AlphaQ(p), AlphaQ(p))
=============================================================================
