---------------------------- MODULE TimeshiftTrace ----------------------------
(***************************************************************************)
(* Relations on quantised observations of lagrange_taps / timeshift for    *)
(* orders beyond the exact model (up to 111) and real-valued shifts.       *)
(*  ev = [order, qsum, qres, qpath, qrep, same]                            *)
(*   qsum  |sum(taps) - 1| * 2^30                                          *)
(*   qres  max interior |timeshift(poly) - poly(n+s)| / scale * 2^30 for a *)
(*         random polynomial of degree min(order, 6)                       *)
(*   qpath max |constant path - time-varying path| / scale * 2^30 where    *)
(*         both stencils are interior                                      *)
(*   qloc  (long records with a 1e12 dynamic range) max interior error of  *)
(*         an output sample relative to sum |tap * sample| over ITS OWN    *)
(*         stencil, * 2^30;  qint number of interior samples of an integer *)
(*         shift that are not bitwise the displaced input sample           *)
(*   qrep  max |second call - first call| * 2^30 (same arguments, same     *)
(*         argument objects), same = 1 iff the argument arrays are         *)
(*         bitwise unchanged after the calls                               *)
(***************************************************************************)
EXTENDS Exact, Json, IOUtils
Traces == JsonDeserialize(IOEnv.TRACE_FILE)
VARIABLES tid, l
vars == <<tid, l>>
Check(name, c) == IF c THEN TRUE ELSE PrintT(<<"FAIL", tid, l, name>>)   \* report and go on: every clause of every event is evaluated
T  == Traces[tid]
Ev == T.ev[l]
Init == tid \in 1..Len(Traces) /\ l = 1
Step ==
    /\ l <= Len(T.ev)
    /\ Check("C16:taps_sum_to_one", Ev.qsum <= 8)
    /\ Check("C16:reproduces_polynomials_of_degree_le_order", Ev.qres <= 64)
    /\ Check("C16:constant_and_varying_paths_agree_in_interior", Ev.qpath <= 64)
    /\ Check("C16:interior_sample_is_the_local_lagrange_interpolant", Ev.qloc <= 64)
    /\ Check("C16:integer_shift_is_exact_displacement", Ev.qint = 0)
    /\ Check("C16:repeated_call_gives_same_result", Ev.qrep = 0)
    /\ Check("C16:arguments_not_modified", Ev.same = 1)
    /\ l' = l + 1 /\ UNCHANGED tid
Next == Step
Spec == Init /\ [][Next]_vars
Done == (l = Len(T.ev) + 1) => PrintT(<<"OK", tid>>)
=============================================================================
