------------------------------ MODULE NoiseTrace ------------------------------
(***************************************************************************)
(* Trace specification for long call sequences on the real generators.     *)
(*   c  = [start]        (unused offset, kept for readability)             *)
(*   ev = [n, len, pos, match, same, qref]                                 *)
(*     n     requested block size                                          *)
(*     pos   offset at which the recorder compared the block with the      *)
(*           twin's single long request (the running sum it maintains)     *)
(*     match 1 iff the block is bitwise equal to twin[pos .. pos+n)        *)
(*     same  1 iff a third instance with the same seed, asked for the same *)
(*           sequence of requests, returned a bitwise equal block          *)
(* Clauses: the comparison offset is the sum of the earlier requests (the  *)
(* recorder cannot move it), the block matches there, the length is n.     *)
(***************************************************************************)
EXTENDS Exact, Json, IOUtils
Traces == JsonDeserialize(IOEnv.TRACE_FILE)
VARIABLES tid, l, sum
vars == <<tid, l, sum>>
Check(name, c) == IF c THEN TRUE ELSE PrintT(<<"FAIL", tid, l, name>>)   \* report and go on: every clause of every event is evaluated
T  == Traces[tid]
Ev == T.ev[l]
Init == tid \in 1..Len(Traces) /\ l = 1 /\ sum = 0
Step ==
    /\ l <= Len(T.ev)
    /\ Check("C17:block_compared_at_the_running_total", Ev.pos = sum)
    /\ Check("C17:block_has_requested_length", Ev.len = Ev.n)
    /\ Check("C17:concatenation_equals_single_request", Ev.match = 1)
    /\ Check("C17:same_seed_same_samples", Ev.same = 1)
    /\ Check("C17:same_seed_same_samples_in_another_process", Ev.xproc = 1)
    /\ Check("C17:cascade_equals_direct_form_reference", Ev.qref <= 1024)      \* 1e-6 of the output's size on a 70001-sample block
    /\ sum' = sum + Ev.n
    /\ l' = l + 1 /\ UNCHANGED tid
Next == Step
Spec == Init /\ [][Next]_vars
Done == (l = Len(T.ev) + 1) => PrintT(<<"OK", tid>>)
=============================================================================
