------------------------------- MODULE Resample -------------------------------
(***************************************************************************)
(* speckit/dsp.py: resample_to_common_grid - the common-grid logic.        *)
(*   one frame : grid from its first to its last time stamp                *)
(*   several   : grid over the overlap [max(0, max_i min t_i), min_i max   *)
(*               t_i); no overlap -> empty frame with only 'common_time'   *)
(*   grid      : start + k/fs for k = 0, 1, ... while < end (end excluded) *)
(*   values    : linear interpolation of every data column at the grid     *)
(*   names     : column_<i> with suffixes=TRUE, else the original name     *)
(*               (the first frame wins a name clash)                       *)
(* Times and rates are rationals, data integers.  Specification growth     *)
(* outside the listed properties (./check EXTRA).                          *)
(***************************************************************************)
EXTENDS Exact, Json
CONSTANTS EmitCases
VARIABLES c
TimeSets == {<<<<0, 1>>, <<1, 1>>, <<2, 1>>, <<3, 1>>>>, <<<<1, 2>>, <<3, 2>>, <<2, 1>>, <<4, 1>>>>, <<<<-1, 1>>, <<1, 2>>, <<5, 2>>>>, <<<<5, 1>>, <<6, 1>>>>}
Rates == {<<1, 1>>, <<2, 1>>, <<2, 3>>}
Vals(n, k) == [i \in 1..n |-> ((i * (k + 2)) % 5) - 2]
Init == \E nfr \in {1, 2} : \E t1 \in TimeSets : \E t2 \in TimeSets : \E fs \in Rates : \E suf \in BOOLEAN :
          c = [frames |-> IF nfr = 1 THEN <<[t |-> t1, v |-> Vals(Len(t1), 1)]>> ELSE <<[t |-> t1, v |-> Vals(Len(t1), 1)], [t |-> t2, v |-> Vals(Len(t2), 2)]>>,
               fs |-> fs, suffixes |-> suf]
Next == UNCHANGED c
Spec == Init /\ [][Next]_<<c>>

RMax(a, b) == IF RLt(a, b) THEN b ELSE a
RMin(a, b) == IF RLt(a, b) THEN a ELSE b
First(f) == f.t[1]
Last(f) == f.t[Len(f.t)]
Start == IF Len(c.frames) = 1 THEN First(c.frames[1])
         ELSE RMax(<<0, 1>>, RMax(First(c.frames[1]), First(c.frames[2])))
End   == IF Len(c.frames) = 1 THEN Last(c.frames[1]) ELSE RMin(Last(c.frames[1]), Last(c.frames[2]))
Empty == Len(c.frames) > 1 /\ ~RLt(Start, End)
(* number of grid points: smallest n with start + n/fs >= end *)
NPts == IF ~RLt(Start, End) THEN 0 ELSE LET span == RMul(RSub(End, Start), c.fs) IN Ceil(span[1], span[2])
Grid == [k \in 1..NPts |-> RAdd(Start, RDiv(<<k - 1, 1>>, c.fs))]
Lerp(t, v, q) ==
    IF RLe(q, t[1]) THEN <<v[1], 1>>
    ELSE IF RLe(t[Len(t)], q) THEN <<v[Len(t)], 1>>
    ELSE LET j == CHOOSE i \in 1..(Len(t) - 1) : RLe(t[i], q) /\ RLt(q, t[i + 1]) IN
         RAdd(<<v[j], 1>>, RMul(<<v[j + 1] - v[j], 1>>, RDiv(RSub(q, t[j]), RSub(t[j + 1], t[j]))))
Column(f) == [k \in 1..NPts |-> Lerp(f.t, f.v, Grid[k])]
GridInsideOverlap == \A k \in 1..NPts : RLe(Start, Grid[k]) /\ RLt(Grid[k], End)
GridIsMaximal == (NPts > 0) => ~RLt(RAdd(Start, RDiv(<<NPts, 1>>, c.fs)), End)
Emit == EmitCases => PrintT(ToJson([frames |-> c.frames, fs |-> c.fs, suffixes |-> c.suffixes, empty |-> Empty, grid |-> Grid,
                                    cols |-> [i \in 1..Len(c.frames) |-> Column(c.frames[i])]]))
=============================================================================
