-------------------------------- MODULE NewLtf --------------------------------
(***************************************************************************)
(* speckit/schedulers.py: new_ltf_plan - the part of the unified loop that *)
(* is meant to make every physical constraint hold "across the stage       *)
(* boundaries": section B (universal constraints) and C (store, advance).  *)
(* The three stages only PROPOSE a segment length (compromise logic,       *)
(* exponential decay round(crossover*exp(alpha*k)), Lmin); what they       *)
(* propose involves logarithms and is abstracted to ANY integer 0..N+2.    *)
(* TLC then shows that, whatever the stages propose, every stored bin      *)
(* satisfies the structural clauses of C02 and C03 - which is exactly what *)
(* the original bmin branch broke (BminBranch = "original").               *)
(*   Propose    d in 0..N+2                                                *)
(*   Constrain  stage-2 floor, clamp to [Lmin, N], single-segment rule,    *)
(*              bmin floor (l.436-463)                                     *)
(*   Store      append, fi += fs/L                                         *)
(* Units fs = N; fi is carried as an integer over the common denominator.  *)
(***************************************************************************)
EXTENDS Exact
CONSTANTS NNs, NOlaps, NBmins, NLminsOf(_), FDen,
          BminBranch          \* "repaired" | "original"
VARIABLES cfg, fi, last, pc, cand
vars == <<cfg, fi, last, pc, cand>>
Seg == INSTANCE SegOps
N == cfg.N
Xov == R(cfg.olap[2] - cfg.olap[1], cfg.olap[2])
Bmin == cfg.bmin
Fi == R(fi, FDen)

Init == /\ \E n \in NNs : \E o \in NOlaps : \E b \in NBmins : \E lm \in NLminsOf(n) :
             /\ 2 * b[1] < n * b[2]
             /\ cfg = [N |-> n, olap |-> o, bmin |-> R(b[1], b[2]), Lmin |-> lm]
             /\ fi = (b[1] * FDen) \div b[2]
        /\ last = [L |-> 0] /\ pc = "propose" /\ cand = 0

Propose == /\ pc = "propose" /\ 2 * fi < N * FDen
           /\ \E d \in 0..(N + 2) : cand' = d
           /\ pc' = "constrain"
           /\ UNCHANGED <<cfg, fi, last>>

NSeg(len) == RoundHalfEven(Seg!IdealNum(N, len, Xov), Seg!IdealDen(N, len, Xov))          \* np.round
Clamp1(d) == LET a == IF d > N THEN N ELSE d IN IF a < cfg.Lmin THEN cfg.Lmin ELSE a
Constrain ==
    /\ pc = "constrain"
    /\ LET l1 == Clamp1(cand)
           k1 == NSeg(l1)
           l2 == IF k1 = 1 THEN N ELSE l1
           fbin == RDiv(RMul(Fi, RInt(l2)), RInt(N))                    \* f*L/fs
       IN IF RLt(fbin, Bmin)
          THEN IF BminBranch = "repaired"
               THEN LET l3 == Min(N, RoundHalfEven(RDiv(RMul(RInt(N), Bmin), Fi)[1], RDiv(RMul(RInt(N), Bmin), Fi)[2]))
                        k3 == NSeg(l3)
                        l4 == IF k3 = 1 THEN N ELSE l3
                    IN last' = [L |-> l4, K |-> Min(NSeg(l4), Seg!Cap(N, l4)), f |-> fi, rL |-> N, bnum |-> fi * l4]     \* r = fs/L, b = f*L/fs
               ELSE LET l3 == RFloor(RDiv(RMul(RInt(N), Bmin), Fi))      \* int(fs/fres), fres = fi/bmin
                    IN last' = [L |-> l3, K |-> NSeg(l3), f |-> fi, rL |-> 0, bnum |-> 0]                              \* r = fi/bmin is stored: r*L # fs
          ELSE last' = [L |-> l2, K |-> Min(NSeg(l2), Seg!Cap(N, l2)), f |-> fi, rL |-> N, bnum |-> fi * l2]
    /\ pc' = "store"
    /\ UNCHANGED <<cfg, fi, cand>>

Store ==
    /\ pc = "store"
    /\ (N * FDen) % last.L = 0
    /\ fi' = fi + (N * FDen) \div last.L
    /\ pc' = "propose"
    /\ UNCHANGED <<cfg, last, cand>>

Next == Propose \/ Constrain \/ Store
Spec == Init /\ [][Next]_vars

Stored == pc = "store"
LengthBounds       == Stored => Max(1, cfg.Lmin) <= last.L /\ last.L <= N
SingleUsesRecord   == Stored => (last.K = 1 => last.L = N)
CountIsNearestCapped == Stored => Seg!KOk(last.K, N, last.L, Xov)
DftConstraint      == Stored => last.rL = N                                   \* r*L = fs
BinNumberFloor     == Stored => RLe(Bmin, RDiv(RMul(R(last.f, FDen), R(2 * last.L + 1, 2)), RInt(N)))
BelowNyquist       == Stored => 2 * last.f < N * FDen
=============================================================================
