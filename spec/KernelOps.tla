----------------------------- MODULE KernelOps -----------------------------
(***************************************************************************)
(* Pure operators shared by Kernel.tla, Analyzer.tla, ... : integer        *)
(* windows, exact polynomial detrending of a segment, the windowed-DFT     *)
(* definition in Z[zeta], the Goertzel recurrence, per-segment products    *)
(* and their reduction to the five statistics.                             *)
(***************************************************************************)
EXTENDS Exact

(***************************************************************************)
(* Windows (integer valued, injected in the code through win=<callable>)   *)
(***************************************************************************)
AsymPattern == <<1, 3, 2, 5, 4, 2, 3, 1>>
Win(id, L) == CASE id = "rect" -> [i \in 1..L |-> 1]
                [] id = "ramp" -> [i \in 1..L |-> i]
                [] id = "asym" -> [i \in 1..L |-> AsymPattern[i]]

(***************************************************************************)
(* Exact polynomial detrending of one segment.                             *)
(* Discrete orthogonal (Gram) polynomials on 0..L-1, integer valued:       *)
(*   g0 = 1,  g1 = 2n-(L-1),  g2 = 6n^2 - 6(L-1)n + (L-1)(L-2)             *)
(* each divided by the gcd of its values.  Degree k only exists for k < L  *)
(* (with L <= order the fit interpolates and the residual is zero, which   *)
(* is also what the reduced QR of the code's Vandermonde matrix gives).    *)
(***************************************************************************)
GramRaw(kk, L) == CASE kk = 0 -> [i \in 1..L |-> 1]
                    [] kk = 1 -> [i \in 1..L |-> 2 * (i - 1) - (L - 1)]
                    [] kk = 2 -> [i \in 1..L |-> 6 * (i - 1) * (i - 1) - 6 * (L - 1) * (i - 1) + (L - 1) * (L - 2)]
GramDef(kk, L) == LET g == GramRaw(kk, L)  d == GCDSeq(g) IN [i \in 1..L |-> g[i] \div d]
Degs(order, L) == {kk \in 0..order : kk < L}           \* empty for order = -1
RECURSIVE LCMSet(_)
LCMSet(S) == IF S = {} THEN 1 ELSE LET e == CHOOSE e \in S : TRUE IN LCM(e, LCMSet(S \ {e}))
(* constant-level tables: TLC evaluates them once *)
MaxL == 8
GramTable     == [L \in 1..MaxL |-> [kk \in {d \in 0..2 : d < L} |-> GramDef(kk, L)]]
GramNormTable == [L \in 1..MaxL |-> [kk \in {d \in 0..2 : d < L} |-> Dot(GramTable[L][kk], GramTable[L][kk])]]
ScaleTable    == [L \in 1..MaxL |-> [o \in -1..2 |-> LCMSet({GramNormTable[L][kk] : kk \in Degs(o, L)})]]
Gram(kk, L)     == GramTable[L][kk]
GramNorm(kk, L) == GramNormTable[L][kk]
Scale(order, L) == ScaleTable[L][order]
(* Scale * (seg - trend) as integers *)
Residual(seg, order, L) ==
    LET sc   == Scale(order, L)
        degs == Degs(order, L)
        coef == [kk \in degs |-> (sc \div GramNorm(kk, L)) * Dot(seg, Gram(kk, L))]
        c0   == IF 0 \in degs THEN coef[0] ELSE 0
        c1   == IF 1 \in degs THEN coef[1] ELSE 0
        c2c  == IF 2 \in degs THEN coef[2] ELSE 0
    IN [i \in 1..L |-> sc * seg[i]
                        - (IF 0 \in degs THEN c0 * Gram(0, L)[i] ELSE 0)
                        - (IF 1 \in degs THEN c1 * Gram(1, L)[i] ELSE 0)
                        - (IF 2 \in degs THEN c2c * Gram(2, L)[i] ELSE 0)]
(* windowed, detrended, scaled samples of segment starting at s (0-based) *)
Samples(rec, s, L, order, win) ==
    LET seg == SubSeq0(rec, s, L)  r == Residual(seg, order, L)
    IN [i \in 1..L |-> win[i] * r[i]]

(***************************************************************************)
(* The definition the property states: X = sum_n v[n] exp(-i w n)          *)
(***************************************************************************)
RECURSIVE DefSum(_, _, _)
DefSum(c2, vv, m) ==        \* sum_{j<m} vv[j+1] * zetabar^j
    IF m = 0 THEN ZZero
    ELSE ZAdd(DefSum(c2, vv, m - 1), ZScale(vv[m], ZPow(c2, ZetaBar(c2), m - 1)))
RECURSIVE Horner(_, _, _)
Horner(c2, vv, i) ==        \* sum_{j>=i} vv[j] zetabar^(j-i)
    IF i > Len(vv) THEN ZZero
    ELSE ZAdd(<<vv[i], 0>>, ZMul(c2, ZetaBar(c2), Horner(c2, vv, i + 1)))
DefX(c2, vv) == Horner(c2, vv, 1)

(* Goertzel as one operator (used by Grain = "segment" and by other modules) *)
RECURSIVE GoertzelRegs(_, _, _)
GoertzelRegs(c2, vv, m) ==  \* <<s1, s2>> after m samples
    IF m = 0 THEN <<0, 0>>
    ELSE LET p == GoertzelRegs(c2, vv, m - 1) IN <<vv[m] + c2 * p[1] - p[2], p[1]>>
GoertzelOut(c2, regs) == <<regs[1] - c2 * regs[2], regs[2]>>      \* s1 - s2*zetabar

(* per-segment products <<xx, yy, xy>> from two ring elements *)
Products(c2, a, b) == [xx |-> ZNorm(c2, a), yy |-> ZNorm(c2, b), xy |-> ZMul(c2, a, ZConj(c2, b))]

(***************************************************************************)
(* Reference statistics straight from the definition (used as the expected *)
(* value everywhere else: Analyzer, Result, Miso ...).                     *)
(* Returned as integers: sums over segments (the mean divides by K, the    *)
(* physical value by Scale^2, Scale^4 for the scatter).                    *)
(***************************************************************************)
SegProducts(c, j) ==
    LET wv == Win(c.win, c.L)
        vx == Samples(c.x, c.D[j], c.L, c.order, wv)
        vy == IF c.mode = "auto" THEN vx ELSE Samples(c.y, c.D[j], c.L, c.order, wv)
    IN Products(c.c2, DefX(c.c2, vx), DefX(c.c2, vy))
RECURSIVE SumXX(_, _)
SumXX(sl, m) == IF m = 0 THEN 0 ELSE sl[m].xx + SumXX(sl, m - 1)
RECURSIVE SumYY(_, _)
SumYY(sl, m) == IF m = 0 THEN 0 ELSE sl[m].yy + SumYY(sl, m - 1)
RECURSIVE SumXY(_, _)
SumXY(sl, m) == IF m = 0 THEN ZZero ELSE ZAdd(sl[m].xy, SumXY(sl, m - 1))
RECURSIVE SumXYN(_, _, _)
SumXYN(c2, sl, m) == IF m = 0 THEN 0 ELSE ZNorm(c2, sl[m].xy) + SumXYN(c2, sl, m - 1)
MaxAbsXY(sl) == LET S == {Abs(sl[j].xy[1]) + Abs(sl[j].xy[2]) : j \in 1..Len(sl)} IN
                CHOOSE m \in S : \A e \in S : e <= m
(* K^2 * M2 = K * sum |Z_k|^2 - |sum Z_k|^2  (population scatter about the mean). *)
(* Quartic in the data: only evaluated when it provably fits 32 bits.        *)
M2Fits(sl) == LET b == MaxAbsXY(sl)  K == Len(sl) IN b < 5000 /\ K <= 64 /\ b * K < 25000     \* then 3 b^2 K^2 < 2^31
ReduceSlots(c2, sl) ==
    LET K == Len(sl)
        sxy == SumXY(sl, K)
    IN [K    |-> K,
        xx   |-> SumXX(sl, K),                   \* K * Scale^2 * MXX
        yy   |-> SumYY(sl, K),
        xy   |-> ZCanon(c2, sxy),                \* <<2*K*Scale^2*mu_r, K*Scale^2*mu_i/sin w>>
        m2ok |-> IF K >= 2 THEN M2Fits(sl) ELSE TRUE,
        m2   |-> IF K < 2 THEN 0                 \* K^2 * Scale^4 * M2
                 ELSE IF M2Fits(sl) THEN K * SumXYN(c2, sl, K) - ZNorm(c2, sxy) ELSE -1]
DefStats(c) == ReduceSlots(c.c2, [j \in 1..Len(c.D) |-> SegProducts(c, j)])

=============================================================================
