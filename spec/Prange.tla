------------------------------- MODULE Prange -------------------------------
(***************************************************************************)
(* The parallel loop of the Numba kernels (core.py: `for j in _prange(K)`) *)
(* as a schedule model.  W workers take iterations of 0..K-1 (any          *)
(* assignment, any interleaving); an iteration is                          *)
(*    Begin   read the start index, compute the per-segment coefficients   *)
(*            into its scratch (detrend mean / alpha)                      *)
(*    Finish  run the recurrence using the scratch, write slot j           *)
(* then a barrier and the serial reduction.                                *)
(* With private scratch (the code: scalars and arrays created inside the   *)
(* loop body) every slot gets the value of its own segment whatever the    *)
(* interleaving.  SharedScratch = TRUE hoists the scratch out of the loop  *)
(* (one buffer for all workers): TLC then finds the interleaving in which  *)
(* a slot is computed from another segment's coefficients.                 *)
(***************************************************************************)
EXTENDS Integers, Sequences, FiniteSets, TLC, Json

CONSTANTS K, W, SharedScratch, EmitOrders

VARIABLES todo, cur, scratch, shared, slots, order, pc
vars == <<todo, cur, scratch, shared, slots, order, pc>>

Iter == 0..(K - 1)
Workers == 1..W
None == -1

Init == /\ todo = Iter /\ cur = [w \in Workers |-> None] /\ scratch = [w \in Workers |-> None]
        /\ shared = None /\ slots = [j \in Iter |-> None] /\ order = <<>> /\ pc = "loop"

Begin(w) ==
    /\ pc = "loop" /\ cur[w] = None
    /\ \E j \in todo :
         /\ todo' = todo \ {j}
         /\ cur' = [cur EXCEPT ![w] = j]
         /\ IF SharedScratch THEN shared' = j /\ UNCHANGED scratch
            ELSE scratch' = [scratch EXCEPT ![w] = j] /\ UNCHANGED shared
         /\ order' = Append(order, j)
    /\ UNCHANGED <<slots, pc>>

Finish(w) ==
    /\ pc = "loop" /\ cur[w] # None
    /\ slots' = [slots EXCEPT ![cur[w]] = IF SharedScratch THEN shared ELSE scratch[w]]   \* value = the segment whose coefficients were used
    /\ cur' = [cur EXCEPT ![w] = None]
    /\ UNCHANGED <<todo, scratch, shared, order, pc>>

Barrier ==
    /\ pc = "loop" /\ todo = {} /\ \A w \in Workers : cur[w] = None
    /\ pc' = "reduce"
    /\ UNCHANGED <<todo, cur, scratch, shared, slots, order>>

Next == (\E w \in Workers : Begin(w) \/ Finish(w)) \/ Barrier
Spec == Init /\ [][Next]_vars

(* every slot is written exactly once, with its own segment's value, before the reduction *)
SlotsOwnValue   == \A j \in Iter : slots[j] = None \/ slots[j] = j
AllWrittenAtReduce == pc = "reduce" => \A j \in Iter : slots[j] = j
NoDoubleTake    == \A a, b \in Workers : (a # b /\ cur[a] # None) => cur[a] # cur[b]
(* the reduction input is the same function of the data for every schedule *)
ReduceInputDeterministic == pc = "reduce" => slots = [j \in Iter |-> j]

EmitOrder == (pc = "reduce" /\ EmitOrders) => PrintT(ToJson([order |-> order]))
=============================================================================
