----------------------------- MODULE KernelTrace -----------------------------
(***************************************************************************)
(* Trace specification for kernel calls recorded from the real code at     *)
(* scale (float records, real windows, arbitrary w).  One trace = one      *)
(* argument tuple executed on every backend; each event is one call:       *)
(*    [b |-> backend, mode, K, q |-> <<MXX, MYY, mu_r, mu_i, M2>>, m2r]    *)
(* (m2r = M2 over the definition's M2 in Q 2^20, or -1 when the scatter is *)
(* below 1e-18 of the power squared and cannot be compared relatively)     *)
(* with the five statistics quantised by the recorder: second-order ones   *)
(* divided by Bx*By (Bx = sum|win*x| over the worst segment: |X| <= Bx),   *)
(* the scatter by (Bx*By)^2, then multiplied by 2^20 and rounded.          *)
(* Event b = "definition" is the direct evaluation of the windowed DFT sum *)
(* in extended precision by the recorder (numpy longdouble), the others    *)
(* are the library's entry points.                                         *)
(*                                                                         *)
(* Clauses (all from C01/C11): every call agrees with the first event of   *)
(* the trace to 4 quanta plus the logged rounding budget; auto calls are diagonal; the scatter is >= 0 and *)
(* exactly 0 for K = 1; Cauchy-Schwarz |mu|^2 <= MXX*MYY.                  *)
(***************************************************************************)
EXTENDS Exact, Json, IOUtils

Traces == JsonDeserialize(IOEnv.TRACE_FILE)

VARIABLES tid, l, ref
vars == <<tid, l, ref>>

Check(name, c) == IF c THEN TRUE ELSE PrintT(<<"FAIL", tid, l, name>>)   \* report and go on: every clause of every event is evaluated

Init == tid \in 1..Len(Traces) /\ l = 1 /\ ref = <<>>

Ev == Traces[tid].ev[l]
Q  == 1048576
Slack == 4 + Traces[tid].c.budget      \* 4 quanta + the recorder's rounding budget of the recurrence (<= 1024: traces beyond that are dropped as ill conditioned)

Agree(a, b) == \A i \in 1..5 : Within(a[i], b[i], Slack)

Run ==
    /\ l <= Len(Traces[tid].ev)
    /\ LET e == Ev  q == e.q IN
       /\ Check("agrees_with_first_event", ref = <<>> \/ Agree(q, ref))
       /\ Check("auto_is_diagonal", e.mode = "csd" \/ (Within(q[1], q[2], 1) /\ Within(q[1], q[3], 1) /\ q[4] = 0))
       /\ Check("scatter_nonnegative", q[5] >= 0)
       /\ Check("scatter_zero_for_single_segment", e.K # 1 \/ q[5] = 0)
       /\ Check("power_nonnegative", q[1] >= 0 /\ q[2] >= 0)
       /\ Check("normalised_by_bound", q[1] <= Q + Slack /\ q[2] <= Q + Slack)
       /\ Check("cauchy_schwarz", MulQ20(q[3], q[3]) + MulQ20(q[4], q[4]) <= MulQ20(q[1], q[2]) + 8)
       /\ Check("scatter_agrees_relative_to_its_own_size", e.m2r = -1 \/ Within(e.m2r, Q, 1024 + 16 * Traces[tid].c.budget))
       /\ ref' = IF ref = <<>> THEN q ELSE ref
    /\ l' = l + 1
    /\ UNCHANGED tid

Next == Run
Spec == Init /\ [][Next]_vars

Done == (l = Len(Traces[tid].ev) + 1) => PrintT(<<"OK", tid>>)
=============================================================================
