-------------------------------- MODULE Config --------------------------------
(***************************************************************************)
(* speckit/analysis.py: how SpectrumAnalyzer resolves its configuration    *)
(* (window, Kaiser shape, default overlap, scheduler), which arguments it  *)
(* rejects, how compute_single_bin validates its request, and              *)
(* core._select_backend - as decision tables.  Not tied to one listed      *)
(* property: this is specification growth (it underlies C05, C06, C12).    *)
(***************************************************************************)
EXTENDS Integers, Sequences, FiniteSets, TLC, Json
CONSTANTS EmitCases
VARIABLES c
Wins == {"kaiser_str", "hann_str", "hanning_str", "bogus_str", "np_kaiser", "sp_kaiser", "custom_callable", "not_callable"}
Pslls == {"none", "p120"}
Olaps == {"default", "half", "one", "negative", "text"}
Scheds == {"lpsd", "ltf", "vectorized_ltf", "new_ltf", "bogus", "callable", "number"}
Orders == {-2, -1, 0, 1, 2, 3}
Fss == {"pos", "zero", "nan"}
Init == \E w \in Wins : \E p \in Pslls : \E o \in Olaps : \E s \in Scheds : \E ord \in {-1, 0, 3} : \E fs \in {"pos", "zero"} :
          c = [part |-> "analyzer", win |-> w, psll |-> p, olap |-> o, sched |-> s, order |-> ord, fs |-> fs]
Next == UNCHANGED c
Spec == Init /\ [][Next]_<<c>>

IsKaiser(w) == w \in {"kaiser_str", "np_kaiser", "sp_kaiser"}
(* the first failing validation decides (order of checks in __init__) *)
Outcome ==
    IF c.fs # "pos" THEN [kind |-> "ValueError", why |-> "fs"]
    ELSE IF c.order \notin {-1, 0, 1, 2} THEN [kind |-> "ValueError", why |-> "order"]
    ELSE IF c.win = "bogus_str" THEN [kind |-> "ValueError", why |-> "window"]
    ELSE IF c.win = "not_callable" THEN [kind |-> "TypeError", why |-> "window"]
    ELSE IF IsKaiser(c.win) /\ c.psll = "none" THEN [kind |-> "ValueError", why |-> "psll"]
    ELSE IF c.olap = "text" THEN [kind |-> "TypeError", why |-> "olap"]
    ELSE IF c.olap \in {"one", "negative"} THEN [kind |-> "ValueError", why |-> "olap"]
    ELSE IF c.sched = "bogus" THEN [kind |-> "ValueError", why |-> "scheduler"]
    ELSE IF c.sched = "number" THEN [kind |-> "TypeError", why |-> "scheduler"]
    ELSE [kind |-> "ok",
          kaiser |-> IsKaiser(c.win),                       \* the window function is the (numpy) Kaiser, alpha = kaiser_alpha(psll)
          alpha_set |-> IsKaiser(c.win),
          \* default overlap: Kaiser -> kaiser_rov(alpha); hann/hanning have no table entry in this build -> 0.5; custom -> 0.5
          olap |-> IF c.olap = "half" THEN "half" ELSE IF IsKaiser(c.win) THEN "kaiser_rov" ELSE "half",
          sched |-> c.sched]
AlphaOnlyForKaiser == Outcome.kind = "ok" => (Outcome.alpha_set <=> IsKaiser(c.win))
Emit == EmitCases => PrintT(ToJson([cfg |-> c, outcome |-> Outcome]))
=============================================================================
