------------------------------- MODULE Result -------------------------------
(***************************************************************************)
(* speckit/analysis.py: SpectrumResult - the lazily computed, cached       *)
(* derived quantities of a spectral estimate, exactly.                     *)
(*                                                                         *)
(* A result is [iscsd, fs, f, bins]; every bin carries the base estimates  *)
(* the kernels and the analyzer deliver:                                   *)
(*   xx, yy  mean |X|^2, |Y|^2          (rationals)                        *)
(*   xy      mean X conj(Y)             (complex, see below)               *)
(*   S2, S12 sum w^2, (sum w)^2         (rationals)                        *)
(*   navg    number of averages, m2 scatter of the cross products          *)
(* Complex numbers are pairs <<re, im>> of rationals with a per-bin        *)
(* rational s2 = sin^2(w): the true imaginary part is im*sqrt(s2) (s2 = 1  *)
(* for Gaussian rationals; 3/4 for the Eisenstein lattice bins).           *)
(*                                                                         *)
(* Def(res, name) is the documented function of the base estimates for     *)
(* every attribute name, as a sequence over the bins of tagged values:     *)
(*   [k |-> "none"]                 not applicable to the analysis type    *)
(*   [k |-> "real", v |-> r]        the attribute equals the rational r    *)
(*   [k |-> "cplx", v |-> z]        complex                                *)
(*   [k |-> "sq",   v |-> r]        attribute >= 0 and attribute^2 = r     *)
(*   [k |-> "db",   v |-> r]        10^(attribute/10) = r  (r = cf^2)      *)
(*   [k |-> "arg",  v |-> z]        attribute = arg(z) (radians)           *)
(*   [k |-> "argdeg", v |-> z]      degrees                                *)
(*   [k |-> "asin", s |-> r, d |-> q]   attribute = asin(sqrt r)/sqrt q    *)
(*   [k |-> "asindeg", ...]         the same in degrees                    *)
(*   [k |-> "int", v |-> n]                                                *)
(* The state machine walks through histories of operations on one result   *)
(* object (attribute access in any order, interpolated measurements,       *)
(* export, copy, pickle); the cache variable follows the dependency graph  *)
(* of __getattr__.                                                         *)
(***************************************************************************)
EXTENDS Exact, Json

CONSTANTS
    Scope,       \* "grid" : single-bin results over the (g2, n, magnitude) grid, no history
                 \* "hist" : three-bin results, histories up to MaxHist operations
    MaxHist,
    EmitCases

VARIABLES res, cache, hist, rid
vars == <<res, cache, hist, rid>>

(* ---------- complex arithmetic over Q(sqrt(-s2)) ---------- *)
CZero == <<<<0, 1>>, <<0, 1>>>>
CMul(s2, a, b) == <<RSub(RMul(a[1], b[1]), RMul(s2, RMul(a[2], b[2]))), RAdd(RMul(a[1], b[2]), RMul(a[2], b[1]))>>
CConj(a)       == <<a[1], RNeg(a[2])>>
CAbs2(s2, a)   == RAdd(RMul(a[1], a[1]), RMul(s2, RMul(a[2], a[2])))
CScale(r, a)   == <<RMul(r, a[1]), RMul(r, a[2])>>
CAdd(a, b)     == <<RAdd(a[1], b[1]), RAdd(a[2], b[2])>>
CSub(a, b)     == <<RSub(a[1], b[1]), RSub(a[2], b[2])>>
RZero == <<0, 1>>
ROne  == <<1, 1>>
IsZero(r) == r[1] = 0

(* ---------- base quantities of one bin (analysis.py:1131-1170) ---------- *)
Two == <<2, 1>>
Gxx(r, b) == IF IsZero(b.S2) THEN RZero ELSE RDiv(RMul(Two, b.xx), RMul(r.fs, b.S2))
GyyC(r, b) == IF IsZero(b.S2) THEN RZero ELSE RDiv(RMul(Two, b.yy), RMul(r.fs, b.S2))
Gyy(r, b) == IF r.iscsd THEN GyyC(r, b) ELSE Gxx(r, b)
GxyC(r, b) == IF IsZero(b.S2) THEN CZero ELSE CScale(RDiv(Two, RMul(r.fs, b.S2)), b.xy)
ENBW(r, b) == IF IsZero(b.S12) THEN RZero ELSE RDiv(RMul(r.fs, b.S2), b.S12)
Hxy(b) == IF IsZero(b.xx) THEN CZero ELSE CScale(RInv(b.xx), CConj(b.xy))         \* conj(XY)/XX
Coh(b) == IF IsZero(b.xx) \/ IsZero(b.yy) THEN RZero ELSE RDiv(CAbs2(b.s2, b.xy), RMul(b.xx, b.yy))
Navg(b) == <<b.navg, 1>>
Scale2(r, b) == IF b.S2[1] > 0 THEN RDiv(Two, RMul(r.fs, b.S2)) ELSE RZero         \* 2/(fs*S2)
EmpVar(b) == IF b.navg > 0 THEN RDiv(b.m2, Navg(b)) ELSE RZero

None == [k |-> "none"]
Real(v) == [k |-> "real", v |-> v]
Cplx(v) == [k |-> "cplx", v |-> v]
Sq(v)   == [k |-> "sq", v |-> v]

(* the value of attribute `name` at one bin *)
DefBin(r, b, name) ==
    LET g2 == Coh(b)  n == Navg(b)  csd == r.iscsd  H == Hxy(b)
        omg == RSub(ROne, g2)                      \* 1 - coherence
        g2n == RMul(g2, n)
    IN
    CASE name = "Gxx"  -> Real(Gxx(r, b))
      [] name = "Gyy"  -> Real(Gyy(r, b))
      [] name = "Gxy"  -> IF csd THEN Cplx(GxyC(r, b)) ELSE Real(Gxx(r, b))
      [] name = "ENBW" -> Real(ENBW(r, b))
      [] name \in {"psd", "G"} -> IF csd THEN None ELSE Real(Gxx(r, b))
      [] name = "asd"  -> IF csd THEN None ELSE Sq(Gxx(r, b))
      [] name = "ps"   -> IF csd THEN None ELSE Real(RMul(Gxx(r, b), ENBW(r, b)))
      [] name = "csd"  -> IF csd THEN Cplx(GxyC(r, b)) ELSE None
      [] name = "Gyx"  -> IF csd THEN Cplx(CConj(GxyC(r, b))) ELSE None
      [] name \in {"Hxy", "tf"} -> IF csd THEN Cplx(H) ELSE None
      [] name = "Hyx"  -> IF csd THEN Cplx(CConj(H)) ELSE None
      [] name = "coh"  -> IF csd THEN Real(g2) ELSE None
      [] name = "ccoh" -> IF csd THEN [k |-> "ccoh", v |-> b.xy, d |-> RMul(b.xx, b.yy)] ELSE None    \* ccoh * sqrt(d) = v (0 if d = 0)
      [] name = "cs"   -> IF csd THEN Cplx(CScale(ENBW(r, b), GxyC(r, b))) ELSE None
      [] name = "cf"   -> IF csd THEN Sq(CAbs2(b.s2, H)) ELSE None
      [] name = "cf_db" -> IF csd THEN [k |-> "db", v |-> CAbs2(b.s2, H)] ELSE None
      [] name \in {"cf_rad", "cf_rad_unwrapped"} -> IF csd THEN [k |-> "arg", v |-> H] ELSE None
      [] name \in {"cf_deg", "cf_deg_unwrapped"} -> IF csd THEN [k |-> "argdeg", v |-> H] ELSE None
      [] name = "GyyCx" -> IF csd THEN Real(RMul(g2, GyyC(r, b))) ELSE None
      [] name = "GyyRx" -> IF csd THEN Real(RMul(omg, GyyC(r, b))) ELSE None
      [] name = "GyySx" -> IF csd THEN Real(RMul(omg, GyyC(r, b))) ELSE None       \* optimal-subtraction residual = Gyy(1-coh)
      [] name = "XX_mean" -> Real(b.xx)
      [] name = "YY_mean" -> Real(IF csd THEN b.yy ELSE b.xx)
      [] name = "XY_M2"   -> Real(b.m2)
      [] name = "XY_emp_var" -> Real(EmpVar(b))
      [] name = "XY_emp_dev" -> Sq(EmpVar(b))
      [] name = "Gxx_emp_dev" -> IF csd THEN None ELSE Sq(RMul(RMul(Scale2(r, b), Scale2(r, b)), EmpVar(b)))
      [] name = "Gxy_emp_dev" -> IF csd THEN Sq(RMul(RMul(Scale2(r, b), Scale2(r, b)), EmpVar(b))) ELSE None
      \* ---- Bendat & Piersol (g2 = 1 for an auto spectrum); undefined (division by zero) where g2 = 0
      [] name = "Gxx_dev" -> Sq(RDiv(RMul(Gxx(r, b), Gxx(r, b)), n))
      [] name = "Gyy_dev" -> Sq(RDiv(RMul(Gyy(r, b), Gyy(r, b)), n))
      [] name = "Gxx_error" -> Sq(RInv(n))
      [] name = "Gyy_error" -> Sq(RInv(n))
      [] name = "Gxy_dev" -> IF ~csd THEN None ELSE IF IsZero(g2) THEN [k |-> "undef"] ELSE Sq(RDiv(CAbs2(b.s2, GxyC(r, b)), g2n))
      [] name = "Gxy_error" -> IF ~csd THEN None ELSE IF IsZero(g2) THEN [k |-> "undef"] ELSE Sq(RInv(g2n))
      [] name = "Hxy_dev" -> IF ~csd THEN None ELSE IF IsZero(g2) THEN [k |-> "undef"]
                             ELSE Sq(RDiv(RMul(CAbs2(b.s2, H), RAbs(omg)), RMul(Two, g2n)))
      [] name = "Hxy_mag_error" -> IF ~csd THEN None ELSE IF IsZero(g2) THEN [k |-> "undef"] ELSE Sq(RDiv(RAbs(omg), RMul(Two, g2n)))
      [] name = "Hxy_rad_error" -> IF ~csd THEN None ELSE IF IsZero(g2) THEN [k |-> "undef"] ELSE [k |-> "asin", s |-> RAbs(omg), d |-> RMul(Two, g2n)]
      [] name = "Hxy_deg_error" -> IF ~csd THEN None ELSE IF IsZero(g2) THEN [k |-> "undef"] ELSE [k |-> "asindeg", s |-> RAbs(omg), d |-> RMul(Two, g2n)]
      [] name = "coh_dev" -> IF ~csd THEN None ELSE Sq(RDiv(RMul(RMul(Two, g2), RMul(omg, omg)), n))
      [] name = "coh_error" -> IF ~csd THEN None ELSE IF IsZero(g2) THEN [k |-> "undef"] ELSE Sq(RDiv(RMul(Two, RMul(omg, omg)), g2n))
      [] name = "navg" -> [k |-> "int", v |-> b.navg]
      [] name = "f"    -> Real(b.f)
      [] name = "XX"   -> Real(b.xx)
      [] name = "YY"   -> Real(b.yy)
      [] name = "XY"   -> Cplx(b.xy)
      [] name = "S2"   -> Real(b.S2)
      [] name = "S12"  -> Real(b.S12)
      [] name = "M2"   -> Real(b.m2)

Derived == {"Gxx", "Gyy", "Gxy", "ENBW", "psd", "G", "asd", "ps", "csd", "Gyx", "Hxy", "Hyx", "coh", "ccoh", "cs", "tf", "cf",
            "cf_db", "cf_rad", "cf_deg", "cf_rad_unwrapped", "cf_deg_unwrapped", "GyyCx", "GyyRx", "GyySx",
            "Gxx_dev", "Gyy_dev", "Gxy_dev", "Hxy_dev", "coh_dev", "Gxx_error", "Gyy_error", "Gxy_error",
            "Hxy_mag_error", "Hxy_rad_error", "Hxy_deg_error", "coh_error",
            "XX_mean", "YY_mean", "XY_M2", "XY_emp_var", "XY_emp_dev", "Gxx_emp_dev", "Gxy_emp_dev"}
DataKeys == {"f", "navg", "XX", "YY", "XY", "S2", "S12", "M2"}
Names == Derived \cup DataKeys

Def(r, name) == [j \in 1..Len(r.bins) |-> DefBin(r, r.bins[j], name)]

(***************************************************************************)
(* Dependency graph of __getattr__ (which other attributes an access       *)
(* evaluates, hence caches).                                               *)
(***************************************************************************)
IsDevErr(name) == name \in {"Gxx_dev", "Gyy_dev", "Gxy_dev", "Hxy_dev", "coh_dev", "Gxx_error", "Gyy_error", "Gxy_error",
                            "Hxy_mag_error", "Hxy_rad_error", "Hxy_deg_error", "coh_error"}
Deps(csd, name) ==
    IF csd THEN
        (IF IsDevErr(name) THEN {"coh"} ELSE {}) \cup
        CASE name = "csd" -> {"Gxy"} [] name = "Gyx" -> {"Gxy"} [] name = "Hyx" -> {"Hxy"} [] name = "tf" -> {"Hxy"}
          [] name = "cf" -> {"Hxy"} [] name = "cf_db" -> {"cf"} [] name = "cf_rad" -> {"Hxy"} [] name = "cf_deg" -> {"Hxy"}
          [] name = "cf_rad_unwrapped" -> {"cf_rad"} [] name = "cf_deg_unwrapped" -> {"cf_rad_unwrapped"}
          [] name = "cs" -> {"csd", "ENBW"} [] name = "GyyCx" -> {"coh", "Gyy"} [] name = "GyyRx" -> {"coh", "Gyy"}
          [] name = "GyySx" -> {"Gyy", "Hxy", "Hyx", "Gxx", "Gxy", "Gyx"}
          [] name = "Gxx_dev" -> {"Gxx"} [] name = "Gyy_dev" -> {"Gyy"} [] name = "Hxy_dev" -> {"Hxy"} [] name = "Gxy_dev" -> {"Gxy"}
          [] name = "Hxy_deg_error" -> {"Hxy_rad_error"}
          [] OTHER -> {}
    ELSE
        CASE name = "Gyy" -> {"Gxx"} [] name = "Gxy" -> {"Gxx"} [] name = "psd" -> {"Gxx"} [] name = "G" -> {"Gxx"}
          [] name = "asd" -> {"psd"} [] name = "ps" -> {"psd", "ENBW"}
          [] name = "Gxx_dev" -> {"Gxx"} [] name = "Gyy_dev" -> {"Gxx_dev"} [] name = "Gyy_error" -> {"Gxx_error"}
          [] OTHER -> {}
RECURSIVE Closure(_, _)
Closure(csd, S) == LET T == S \cup UNION {Deps(csd, nm) : nm \in S} IN IF T = S THEN S ELSE Closure(csd, T)

(***************************************************************************)
(* Interpolated measurement (get_measurement): piecewise linear on the     *)
(* tabulated frequencies, real and imaginary parts separately, clamped.    *)
(***************************************************************************)
Lerp(f0, f1, v0, v1, q) == RAdd(v0, RMul(RSub(v1, v0), RDiv(RSub(q, f0), RSub(f1, f0))))
MeasureReal(fs_, vs, q) ==       \* fs_ strictly increasing sequence of rationals, vs rationals
    LET n == Len(fs_) IN
    IF RLe(q, fs_[1]) THEN vs[1]
    ELSE IF RLe(fs_[n], q) THEN vs[n]
    ELSE LET j == CHOOSE i \in 1..(n - 1) : RLe(fs_[i], q) /\ RLt(q, fs_[i + 1]) IN
         Lerp(fs_[j], fs_[j + 1], vs[j], vs[j + 1], q)
Freqs(r) == [j \in 1..Len(r.bins) |-> r.bins[j].f]
(* query points: every grid frequency, the midpoints, one third points, and one point outside on each side *)
Queries(r) ==
    LET fq == Freqs(r)  n == Len(fq) IN
    {fq[j] : j \in 1..n}
    \cup {RDiv(RAdd(fq[j], fq[j + 1]), Two) : j \in 1..(n - 1)}
    \cup {RAdd(fq[j], RDiv(RSub(fq[j + 1], fq[j]), <<3, 1>>)) : j \in 1..(n - 1)}
    \cup {RDiv(fq[1], Two), RAdd(fq[n], ROne)}
MeasurableKinds == {"real", "cplx", "int"}
(* integer-valued columns (navg, K, L) are interpolated like any other: between grid points the value is fractional *)
Measure(r, name, q) ==
    LET d == Def(r, name) IN
    IF d[1].k = "int" THEN Real(MeasureReal(Freqs(r), [j \in 1..Len(d) |-> <<d[j].v, 1>>], q))
    ELSE IF d[1].k = "real" THEN Real(MeasureReal(Freqs(r), [j \in 1..Len(d) |-> d[j].v], q))
    ELSE Cplx(<<MeasureReal(Freqs(r), [j \in 1..Len(d) |-> d[j].v[1]], q),
                MeasureReal(Freqs(r), [j \in 1..Len(d) |-> d[j].v[2]], q)>>)
(* Attributes whose values are transcendental (phases, square roots) are interpolated like every other: linearly between the   *)
(* TABULATED values.  The model gives the bracketing bin and the weight; the harness applies them to the attribute's own      *)
(* (separately checked) values.  A phase that wraps between two bins is interpolated through the wrap, not around the circle. *)
MeasureWeight(r, q) ==
    LET fq == Freqs(r)  n == Len(fq) IN
    IF RLe(q, fq[1]) THEN [j |-> 1, w |-> <<0, 1>>]
    ELSE IF RLe(fq[n], q) THEN [j |-> n, w |-> <<0, 1>>]
    ELSE LET j == CHOOSE i \in 1..(n - 1) : RLe(fq[i], q) /\ RLt(q, fq[i + 1]) IN
         [j |-> j, w |-> RDiv(RSub(q, fq[j]), RSub(fq[j + 1], fq[j]))]
TabulatedNames == {"cf_rad", "cf_deg", "cf", "asd", "Hxy_rad_error"}
(* s2 must be the same in all bins for a complex interpolation to be expressible: enforced by the scope *)

(* DataFrame export: the columns are exactly the names whose value is a per-bin array *)
(* ("G" is an unlisted alias of psd: reachable by name, not part of the export) *)
FrameColumns(r) == {nm \in Names \ {"f", "G"} : Def(r, nm)[1].k # "none"}

(***************************************************************************)
(* Scopes                                                                  *)
(***************************************************************************)
Units == {<<<<1, 1>>, <<0, 1>>>>, <<<<0, 1>>, <<1, 1>>>>, <<<<0, 1>>, <<-1, 1>>>>, <<<<-1, 1>>, <<0, 1>>>>,
          <<<<3, 5>>, <<4, 5>>>>, <<<<-5, 13>>, <<12, 13>>>>, <<<<4, 5>>, <<-3, 5>>>>}
RootsG2 == {<<0, 1>>, <<1, 4>>, <<1, 2>>, <<3, 4>>, <<5, 6>>, <<7, 8>>, <<15, 16>>, <<1, 1>>}     \* sqrt(g2)
RootsXX == {<<1, 2>>, <<1, 1>>, <<3, 1>>}
RootsYY == {<<1, 1>>, <<2, 1>>}
Aux == {[S2 |-> <<1, 1>>, S12 |-> <<1, 1>>, fs |-> <<1, 1>>, m2 |-> <<0, 1>>],
        [S2 |-> <<3, 2>>, S12 |-> <<4, 1>>, fs |-> <<2, 1>>, m2 |-> <<1, 4>>],
        [S2 |-> <<5, 1>>, S12 |-> <<9, 1>>, fs |-> <<1, 2>>, m2 |-> <<2, 1>>],
        [S2 |-> <<2, 1>>, S12 |-> <<3, 1>>, fs |-> <<10, 1>>, m2 |-> <<7, 3>>]}
MkBin(f, rx, ry, rg, u, a, n, csd) ==
    LET xx == RMul(rx, rx)  yy == IF csd THEN RMul(ry, ry) ELSE xx
        mag == RMul(rg, RMul(rx, ry))
    IN [f |-> f, xx |-> xx, yy |-> yy, xy |-> IF csd THEN CScale(mag, u) ELSE <<xx, <<0, 1>>>>,
        s2 |-> <<1, 1>>, S2 |-> a.S2, S12 |-> a.S12, navg |-> n, m2 |-> a.m2]

(* the bin's frequency does not enter any definition: DC and Nyquist bins (compute_single_bin, custom schedulers) obey the same table *)
GridFreqs(fs, rg) == IF rg \in {<<1, 2>>, <<1, 1>>} THEN {<<3, 2>>, <<0, 1>>, RDiv(fs, <<2, 1>>)} ELSE {<<3, 2>>}
(* degenerate bins: a window without energy (np.hanning(2) = [0, 0], np.bartlett(2)), an all-zero record, one dead channel. *)
(* The guards of the Def table (IsZero(S2), IsZero(S12), IsZero(xx), IsZero(yy)) are exercised only here.                  *)
DegBins(n) ==
    LET Z == <<0, 1>>  mk(xx, yy, S2, S12) == [f |-> <<3, 2>>, xx |-> xx, yy |-> yy, xy |-> <<Z, Z>>, s2 |-> <<1, 1>>, S2 |-> S2, S12 |-> S12,
                                              navg |-> n, m2 |-> Z]
    IN {mk(Z, Z, Z, Z), mk(Z, Z, <<3, 2>>, <<4, 1>>), mk(Z, <<1, 1>>, <<3, 2>>, <<4, 1>>), mk(<<1, 1>>, Z, <<3, 2>>, <<4, 1>>)}
DegInit == \E csd \in BOOLEAN : \E n \in {1, 5} : \E b \in DegBins(n) :
              /\ (~csd => b.yy = b.xx)
              /\ res = [iscsd |-> csd, fs |-> <<2, 1>>, bins |-> <<IF csd THEN b ELSE [b EXCEPT !.xy = <<b.xx, <<0, 1>>>>]>>]
GridInit ==
  \/ DegInit
  \/
    \E csd \in BOOLEAN : \E a \in Aux : \E n \in {1, 2, 5, 64} : \E rx \in RootsXX :
      IF csd THEN \E ry \in RootsYY : \E rg \in RootsG2 : \E u \in Units : \E f \in GridFreqs(a.fs, rg) :
             res = [iscsd |-> TRUE, fs |-> a.fs, bins |-> <<MkBin(f, rx, ry, rg, u, a, n, TRUE)>>]
      ELSE \E f \in GridFreqs(a.fs, <<1, 1>>) :
             res = [iscsd |-> FALSE, fs |-> a.fs, bins |-> <<MkBin(f, rx, <<1, 1>>, <<1, 1>>, <<<<1, 1>>, <<0, 1>>>>, a, n, FALSE)>>]

(* a few three-bin results for histories, interpolation and export *)
A1 == CHOOSE a \in Aux : a.fs = <<2, 1>>
I_ == <<<<0, 1>>, <<1, 1>>>>
U1 == <<<<0, 1>>, <<-1, 1>>>>
U2 == <<<<3, 5>>, <<4, 5>>>>
U3 == <<<<-5, 13>>, <<12, 13>>>>
U4 == <<<<-12, 13>>, <<5, 13>>>>          \* phases near +-180 degrees: the unwrapped phase must follow the wrap
U5 == <<<<-12, 13>>, <<-5, 13>>>>
HistFreqs == <<<<1, 2>>, <<5, 4>>, <<3, 1>>>>
CB(j, rx, ry, rg, u, n) == MkBin(HistFreqs[j], rx, ry, rg, u, A1, n, TRUE)
AB(j, rx, n) == MkBin(HistFreqs[j], rx, <<1, 1>>, <<1, 1>>, <<<<1, 1>>, <<0, 1>>>>, A1, n, FALSE)
HistResults == <<
    [iscsd |-> TRUE,  fs |-> <<2, 1>>, bins |-> <<CB(1, <<1, 1>>, <<2, 1>>, <<1, 2>>, U1, 1), CB(2, <<3, 1>>, <<1, 1>>, <<3, 4>>, U2, 5), CB(3, <<1, 2>>, <<1, 1>>, <<1, 1>>, U3, 5)>>],
    [iscsd |-> TRUE,  fs |-> <<2, 1>>, bins |-> <<CB(1, <<3, 1>>, <<1, 1>>, <<0, 1>>, U2, 5), CB(2, <<1, 1>>, <<1, 1>>, <<7, 8>>, U3, 2), CB(3, <<1, 1>>, <<2, 1>>, <<1, 4>>, U1, 64)>>],
    [iscsd |-> FALSE, fs |-> <<2, 1>>, bins |-> <<AB(1, <<1, 2>>, 1), AB(2, <<3, 1>>, 5), AB(3, <<1, 1>>, 5)>>],
    [iscsd |-> TRUE,  fs |-> <<2, 1>>, bins |-> <<CB(1, <<1, 1>>, <<1, 1>>, <<5, 6>>, U3, 5)>>],
    [iscsd |-> TRUE,  fs |-> <<2, 1>>, bins |-> <<CB(1, <<1, 1>>, <<1, 1>>, <<3, 4>>, U4, 5), CB(2, <<1, 1>>, <<2, 1>>, <<1, 2>>, U5, 5), CB(3, <<3, 1>>, <<1, 1>>, <<7, 8>>, U4, 2)>>],
    [iscsd |-> FALSE, fs |-> <<2, 1>>, bins |-> <<AB(1, <<3, 1>>, 2)>>],
    \* a dead input channel in the first bin (XX = 0 exactly: the masked divisions of coh, Hxy, cf, ... must give their defined zeros in any access order)
    [iscsd |-> TRUE,  fs |-> <<2, 1>>, bins |-> <<CB(1, <<0, 1>>, <<1, 1>>, <<1, 2>>, U2, 5), CB(2, <<1, 1>>, <<1, 1>>, <<3, 4>>, U3, 2), CB(3, <<1, 1>>, <<0, 1>>, <<1, 2>>, U1, 5)>>],
    \* two bins (a length-2 result: any length-2 helper array must not be mistaken for a per-bin column), phase wrapping between them
    [iscsd |-> TRUE,  fs |-> <<2, 1>>, bins |-> <<CB(1, <<1, 1>>, <<1, 1>>, <<3, 4>>, U4, 5), CB(2, <<1, 1>>, <<2, 1>>, <<1, 2>>, U5, 2)>>] >>
HistInit == \E i \in 1..Len(HistResults) : rid = i /\ res = HistResults[i]

Init == /\ (IF Scope = "grid" THEN (GridInit /\ rid = 0) ELSE HistInit)
        /\ cache = {} /\ hist = <<>>

(***************************************************************************)
(* Operations on one result object                                         *)
(***************************************************************************)
HistNames == {"asd", "ps", "Gxy", "coh", "cf_db", "cf_deg_unwrapped", "GyySx", "GyyCx", "Hxy_deg_error", "Gyy_dev", "Gxx_error",
              "coh_dev", "cs", "Hyx", "Gxy_emp_dev", "Gxx_emp_dev", "YY_mean", "XY_M2", "Gxy_error", "Hxy_mag_error"}
Get(name) ==
    /\ Len(hist) < MaxHist
    /\ cache' = Closure(res.iscsd, cache \cup {name})
    /\ hist' = Append(hist, [op |-> "get", name |-> name])
    /\ UNCHANGED <<res, rid>>
MeasureOp(name) ==
    /\ Len(hist) < MaxHist
    /\ Def(res, name)[1].k \in MeasurableKinds
    /\ cache' = Closure(res.iscsd, cache \cup {name, "f"})
    /\ hist' = Append(hist, [op |-> "measure", name |-> name])
    /\ UNCHANGED <<res, rid>>
ToFrame ==
    /\ Len(hist) < MaxHist
    /\ cache' = Closure(res.iscsd, cache \cup Names)
    /\ hist' = Append(hist, [op |-> "frame", name |-> ""])
    /\ UNCHANGED <<res, rid>>
CopyOp(kind) ==           \* copy.copy / copy.deepcopy / pickle round trip: continue with the copy
    /\ Len(hist) < MaxHist
    /\ hist' = Append(hist, [op |-> kind, name |-> ""])
    /\ UNCHANGED <<res, cache, rid>>

(* result.plot(...): reads the plotted quantity and, with errors=True, its error band (analysis.py:1590-1706) *)
PlotOp(kind) ==
    /\ Len(hist) < MaxHist
    /\ cache' = Closure(res.iscsd, cache \cup (IF kind = "bode" THEN {"f", "cf", "cf_db", "cf_rad", "Hxy_mag_error", "Hxy_deg_error", "Hxy_rad_error"}
                                              ELSE {"f", "psd", "asd", "coh", "csd", "cf", "Gxx_dev", "coh_dev", "Gxy_dev", "Hxy_dev", "Gxx"}))
    /\ hist' = Append(hist, [op |-> "plot", name |-> kind])
    /\ UNCHANGED <<res, rid>>

Next == IF Scope = "grid" THEN FALSE
        ELSE \/ \E nm \in HistNames : Get(nm)
             \/ \E nm \in {"Gxy", "coh", "asd", "Hxy", "psd", "navg"} : MeasureOp(nm)
             \/ ToFrame
             \/ \E kd \in {"copy", "deepcopy", "pickle"} : CopyOp(kd)
             \/ \E pk \in {"bode", "single"} : PlotOp(pk)
Spec == Init /\ [][Next]_vars

(***************************************************************************)
(* Invariants: the identities and bounds the properties state (C06, C09,   *)
(* C10, C11, C20), on every bin of every result of the scope.              *)
(***************************************************************************)
V(name, j) == DefBin(res, res.bins[j], name)
Bins == 1..Len(res.bins)
Csd == res.iscsd

CoherenceBounds   == Csd => \A j \in Bins : RLe(RZero, V("coh", j).v) /\ RLe(V("coh", j).v, ROne)
CauchySchwarz     == Csd => \A j \in Bins : RLe(CAbs2(res.bins[j].s2, V("Gxy", j).v), RMul(V("Gxx", j).v, V("Gyy", j).v))
CondSpectraAddUp  == Csd => \A j \in Bins : RAdd(V("GyyCx", j).v, V("GyyRx", j).v) = V("Gyy", j).v
ResidualIsOptimal == \* Gyy + |H|^2 Gxx - 2 Re(conj(H) conj(Gxy))... the minimum of the quadratic form equals Gyy(1-coh)
    Csd => \A j \in Bins :
        LET b == res.bins[j]  H == Hxy(b)  G == GxyC(res, b)
            \* |Y - H X|^2 averaged = Gyy - 2 Re(conj(H) Gyx) + |H|^2 Gxx   with Gyx = conj(Gxy)
            quad == RAdd(RSub(GyyC(res, b), RMul(Two, CMul(b.s2, CConj(H), CConj(G))[1])), RMul(CAbs2(b.s2, H), Gxx(res, b)))
        IN IsZero(b.xx) \/ quad = V("GyySx", j).v
PsIsPsdTimesEnbw  == ~Csd => \A j \in Bins : V("ps", j).v = RMul(V("psd", j).v, V("ENBW", j).v)
AsdSquaredIsPsd   == ~Csd => \A j \in Bins : V("asd", j).v = V("psd", j).v
GyxIsConjugate    == Csd => \A j \in Bins : V("Gyx", j).v = CConj(V("Gxy", j).v) /\ V("Hyx", j).v = CConj(V("Hxy", j).v)
CfIsMagnitudeOfH  == Csd => \A j \in Bins : V("cf", j).v = CAbs2(res.bins[j].s2, V("Hxy", j).v)
HTimesGxxIsGyx    == Csd => \A j \in Bins : IsZero(res.bins[j].xx) \/ CScale(V("Gxx", j).v, V("Hxy", j).v) = V("Gyx", j).v
DevIsEstimateTimesError ==      \* squared: dev^2 = estimate^2 * error^2
    \A j \in Bins :
        /\ V("Gxx_dev", j).v = RMul(RMul(V("Gxx", j).v, V("Gxx", j).v), V("Gxx_error", j).v)
        /\ (Csd /\ V("Gxy_dev", j).k = "sq") => V("Gxy_dev", j).v = RMul(CAbs2(res.bins[j].s2, V("Gxy", j).v), V("Gxy_error", j).v)
        /\ (Csd /\ V("Hxy_dev", j).k = "sq") => V("Hxy_dev", j).v = RMul(V("cf", j).v, V("Hxy_mag_error", j).v)
        /\ (Csd /\ V("coh_error", j).k = "sq") => V("coh_dev", j).v = RMul(RMul(V("coh", j).v, V("coh", j).v), V("coh_error", j).v)
ErrorsScaleWithN ==             \* error^2 * n does not depend on n: compare with the same bin at navg = 1
    \A j \in Bins : \A nm \in {"Gxx_error", "Gxy_error", "Hxy_mag_error", "coh_error"} :
        LET b1 == [res.bins[j] EXCEPT !.navg = 1]
            v1 == DefBin(res, b1, nm)  vn == V(nm, j)
        IN vn.k = "sq" => RMul(vn.v, Navg(res.bins[j])) = v1.v
AutoUsesUnitCoherence == ~Csd => \A j \in Bins : V("Gyy_dev", j) = V("Gxx_dev", j) /\ V("Gxx_error", j).v = RInv(Navg(res.bins[j]))
NoneTable ==
    /\ Csd => \A nm \in {"psd", "G", "asd", "ps", "Gxx_emp_dev"} : V(nm, 1) = None
    /\ ~Csd => \A nm \in {"csd", "Gyx", "Hxy", "Hyx", "coh", "ccoh", "cs", "tf", "cf", "cf_db", "cf_rad", "cf_deg", "cf_rad_unwrapped",
                          "cf_deg_unwrapped", "GyyCx", "GyyRx", "GyySx", "Gxy_dev", "Hxy_dev", "coh_dev", "Gxy_error", "Hxy_mag_error",
                          "Hxy_rad_error", "Hxy_deg_error", "coh_error", "Gxy_emp_dev"} : V(nm, 1) = None
EmpiricalMapping ==
    \A j \in Bins : LET b == res.bins[j] IN
        /\ RLe(RZero, V("XY_emp_var", j).v)
        /\ RMul(V("XY_emp_var", j).v, Navg(b)) = b.m2
        /\ V("XY_emp_dev", j).v = V("XY_emp_var", j).v
        /\ LET e == V(IF Csd THEN "Gxy_emp_dev" ELSE "Gxx_emp_dev", j) IN
           e.v = RMul(RMul(Scale2(res, b), Scale2(res, b)), V("XY_emp_var", j).v)
MeasureAtGridIsTabulated ==
        \A nm \in {"Gxx", "Gxy"} : \A j \in Bins : Measure(res, nm, res.bins[j].f).v = V(nm, j).v
MeasureClamps ==
        /\ Measure(res, "Gxx", RDiv(res.bins[1].f, Two)).v = V("Gxx", 1).v
        /\ Measure(res, "Gxx", RAdd(res.bins[Len(res.bins)].f, ROne)).v = V("Gxx", Len(res.bins)).v
CacheClosed == cache = Closure(res.iscsd, cache)

(***************************************************************************)
(* Emission for replay                                                     *)
(***************************************************************************)
Case == [iscsd |-> res.iscsd, fs |-> res.fs, bins |-> res.bins,
         exp |-> [nm \in Names |-> Def(res, nm)],
         frame |-> FrameColumns(res),
         measure |-> [nm \in {"Gxx", "Gxy", "coh", "asd", "Hxy", "psd", "navg"} |->
                             IF Def(res, nm)[1].k \in MeasurableKinds
                             THEN {<<q, Measure(res, nm, q)>> : q \in Queries(res)} ELSE {}],
         weights |-> {<<q, MeasureWeight(res, q)>> : q \in Queries(res)}]
EmitGrid == (Scope = "grid" /\ EmitCases) => PrintT(ToJson(Case))
EmitHist == /\ (Scope = "hist" /\ EmitCases /\ Len(hist) = 0) => PrintT(ToJson([kind |-> "res", rid |-> rid, res |-> Case]))
            /\ (Scope = "hist" /\ EmitCases /\ Len(hist) = MaxHist) => PrintT(ToJson([kind |-> "hist", rid |-> rid, hist |-> hist, cache |-> cache]))
=============================================================================
