------------------------------- MODULE BandTrace -------------------------------
(***************************************************************************)
(* Trace specification for band-restricted analyses of real records (C05): *)
(* the restricted analysis must be exactly the in-band bins of the          *)
(* unrestricted one, with every per-bin field still aligned - whatever      *)
(* else is configured (forced bin count, scheduler, window, order).         *)
(*   ev = [nb (bins of the restricted result), ni (in-band bins of the      *)
(*         unrestricted result), same (1 iff f, r, b, L, K, navg, O, D, XX, *)
(*         YY, XY, S12, S2, M2 of the two agree bitwise, bin by bin),       *)
(*         raised (1 iff the restricted analysis raised), force]            *)
(***************************************************************************)
EXTENDS Integers, Sequences, TLC, Json, IOUtils
Traces == JsonDeserialize(IOEnv.TRACE_FILE)
VARIABLES tid, l
vars == <<tid, l>>
Check(name, c) == IF c THEN TRUE ELSE PrintT(<<"FAIL", tid, l, name>>)
T  == Traces[tid]
Ev == T.ev[l]
Init == tid \in 1..Len(Traces) /\ l = 1
Step ==
    /\ l <= Len(T.ev)
    /\ Check("C05:empty_band_is_an_error_and_only_that", (Ev.raised = 1) <=> (Ev.ni = 0))
    /\ Check("C05:band_keeps_exactly_the_in_band_bins", Ev.raised = 1 \/ Ev.nb = Ev.ni)
    /\ Check("C05:band_bins_equal_unrestricted_bins_field_by_field", Ev.raised = 1 \/ Ev.same = 1)
    /\ l' = l + 1 /\ UNCHANGED tid
Next == Step
Spec == Init /\ [][Next]_vars
Done == (l = Len(T.ev) + 1) => PrintT(<<"OK", tid>>)
=============================================================================
