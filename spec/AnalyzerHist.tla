---------------------------- MODULE AnalyzerHist ----------------------------
(***************************************************************************)
(* Call histories on ONE SpectrumAnalyzer (C14): plan(), compute(),        *)
(* compute_single_bin(f, L=..), compute_single_bin(f, fres=..) in any      *)
(* order, with force_target_nf on or off.                                  *)
(*                                                                         *)
(* State that persists between calls: the plan cache and - with            *)
(* force_target_nf - the configured Jdes, which the first plan() replaces  *)
(* by the solved value (analysis.py:430).  Outputs are abstract terms:     *)
(*   plan()      -> <<"plan", J>>  J = the Jdes the scheduler was run with *)
(*   compute()   -> <<"spec", J>>                                          *)
(*   single bin  -> <<"bin", i>>   (own segmentation: no plan involved;    *)
(*                  bin3 is one segment shorter than the record)           *)
(* A fresh analyzer answers Fresh(op).  The property is that every call in *)
(* every history answers Fresh(op) as well.                                *)
(***************************************************************************)
EXTENDS Integers, Sequences, TLC, Json

CONSTANTS MaxLen, EmitHistories

VARIABLES force, jdes, planCache, hist, outs
vars == <<force, jdes, planCache, hist, outs>>

J0 == 0                       \* the configured Jdes (target bin count when forcing)
Solve(t) == IF t = J0 THEN 1 ELSE 2      \* the search maps the original target to J = 1; searching again from 1 would give 2
Ops == {"plan", "compute", "bin1", "bin2", "bin3"}

Init == /\ force \in BOOLEAN /\ jdes = J0 /\ planCache = <<>> /\ hist = <<>> /\ outs = <<>>

PlanValue == IF planCache # <<>> THEN planCache[1]
             ELSE IF force THEN Solve(jdes) ELSE jdes
DoPlan ==
    /\ planCache' = <<PlanValue>>
    /\ jdes' = IF planCache = <<>> /\ force THEN Solve(jdes) ELSE jdes

Call(op) ==
    /\ Len(hist) < MaxLen
    /\ hist' = Append(hist, op)
    /\ CASE op = "plan"    -> DoPlan /\ outs' = Append(outs, <<"plan", PlanValue>>)
         [] op = "compute" -> DoPlan /\ outs' = Append(outs, <<"spec", PlanValue>>)
         [] op = "bin1"    -> outs' = Append(outs, <<"bin", 1>>) /\ UNCHANGED <<jdes, planCache>>
         [] op = "bin2"    -> outs' = Append(outs, <<"bin", 2>>) /\ UNCHANGED <<jdes, planCache>>
         [] op = "bin3"    -> outs' = Append(outs, <<"bin", 3>>) /\ UNCHANGED <<jdes, planCache>>
    /\ UNCHANGED force

Next == \E op \in Ops : Call(op)
Spec == Init /\ [][Next]_vars

Fresh(op) == CASE op = "plan" -> <<"plan", IF force THEN Solve(J0) ELSE J0>>
               [] op = "compute" -> <<"spec", IF force THEN Solve(J0) ELSE J0>>
               [] op = "bin1" -> <<"bin", 1>> [] op = "bin2" -> <<"bin", 2>> [] op = "bin3" -> <<"bin", 3>>

HistoryIndependent == \A k \in 1..Len(hist) : outs[k] = Fresh(hist[k])
CachedPlanUnchanged == planCache # <<>> => planCache[1] = (IF force THEN Solve(J0) ELSE J0)

Emit == (EmitHistories /\ Len(hist) = MaxLen) => PrintT(ToJson([force |-> force, hist |-> hist]))
=============================================================================
