-------------------------------- MODULE Noise --------------------------------
(***************************************************************************)
(* speckit/noise.py: the generators as stream state machines.              *)
(*                                                                         *)
(* A generator owns a seeded RNG (an infinite stream w[0], w[1], ... of     *)
(* normal deviates), a colouring filter whose delay line must equal the     *)
(* state after filtering exactly the samples drawn so far, and a prefetch   *)
(* buffer used by get_sample.  Positions are indices into the RNG stream.   *)
(*   New          red noise draws ONE deviate for the initial filter state  *)
(*                (offset 1); init_filter runs Settle samples through       *)
(*   GetSeries(n) draws w[rngPos .. rngPos+n), filters them starting from   *)
(*                the carried state, returns the block                      *)
(*   GetSample    refills the buffer with GetSeries(Buf) when empty, then   *)
(*                pops one sample                                           *)
(* The output block of GetSeries is a function of (positions, filter state  *)
(* at its first position); `filtPos` records up to which position the       *)
(* delay line is consistent - a block is "continuous" iff filtPos equals    *)
(* its first position.                                                      *)
(* (The filter arithmetic itself is in Iir.tla.)                            *)
(***************************************************************************)
EXTENDS Exact, Json

CONSTANTS Kinds,       \* subset of {"white", "red", "alpha", "pink"}
          Sizes,       \* block sizes offered to GetSeries, e.g. {0,1,2,3,7}
          Buf,         \* prefetch size of get_sample (4096 in the code; scaled down)
          Settle,      \* samples consumed by init_filter (ceil(2 fs/fmin) in the code; scaled down)
          MaxOps, EmitHistories,
          ZeroBlockKeepsState   \* TRUE: a zero-length request leaves the filter state alone (repaired red_noise)

VARIABLES kind, settled, rngPos, filtPos, buf, hist, blocks
vars == <<kind, settled, rngPos, filtPos, buf, hist, blocks>>

Offset(k) == IF k = "red" THEN 1 ELSE 0        \* red noise draws one deviate for zi before any sample

Init ==
    /\ kind \in Kinds /\ settled \in BOOLEAN
    /\ (kind = "white" => settled = FALSE)
    /\ rngPos = Offset(kind) + (IF settled THEN Settle ELSE 0)
    /\ filtPos = rngPos
    /\ buf = <<0, 0>> /\ hist = <<>> /\ blocks = <<>>

(* positions and the state the block starts from *)
Series(n) ==
    /\ Len(hist) < MaxOps
    /\ blocks' = Append(blocks, [op |-> "series", n |-> n, from |-> rngPos, state |-> filtPos])
    /\ rngPos' = rngPos + n
    /\ filtPos' = IF n = 0 /\ kind = "red" /\ ~ZeroBlockKeepsState THEN -1      \* lfilter on an empty block returns an unrelated state
                  ELSE IF filtPos = rngPos THEN rngPos + n ELSE filtPos
    /\ hist' = Append(hist, [op |-> "series", n |-> n])
    /\ UNCHANGED <<kind, settled, buf>>

Sample ==
    /\ Len(hist) < MaxOps
    /\ IF buf[1] = buf[2]
       THEN /\ buf' = <<rngPos + 1, rngPos + Buf>>
            /\ blocks' = Append(blocks, [op |-> "sample", n |-> 1, from |-> rngPos, state |-> filtPos])
            /\ rngPos' = rngPos + Buf
            /\ filtPos' = IF filtPos = rngPos THEN rngPos + Buf ELSE filtPos
       ELSE /\ buf' = <<buf[1] + 1, buf[2]>>
            /\ blocks' = Append(blocks, [op |-> "sample", n |-> 1, from |-> buf[1], state |-> buf[1]])
            /\ UNCHANGED <<rngPos, filtPos>>
    /\ hist' = Append(hist, [op |-> "sample", n |-> 1])
    /\ UNCHANGED <<kind, settled>>

Next == (\E n \in Sizes : Series(n)) \/ Sample
Spec == Init /\ [][Next]_vars

(* ---- invariants (C17) ---- *)
SeriesOnly == \A k \in 1..Len(hist) : hist[k].op = "series"
SamplesOnly == \A k \in 1..Len(hist) : hist[k].op = "sample"
Start == Offset(kind) + (IF settled THEN Settle ELSE 0)
RECURSIVE SumN(_, _)
SumN(b, k) == IF k = 0 THEN 0 ELSE b[k].n + SumN(b, k - 1)
(* chunking never introduces a gap, a repeat or a discontinuity: block k starts where block k-1 ended, from the carried state *)
SeriesContiguous ==
    SeriesOnly => \A k \in 1..Len(blocks) : blocks[k].from = Start + SumN(blocks, k - 1) /\ blocks[k].state = blocks[k].from
(* a run of get_sample calls walks through the stream one by one *)
SamplesContiguous ==
    SamplesOnly => \A k \in 1..Len(blocks) : blocks[k].from = Start + k - 1 /\ blocks[k].state = blocks[k].from
FilterStateConsistent == SeriesOnly => filtPos = rngPos

Emit == (EmitHistories /\ Len(hist) = MaxOps) => PrintT(ToJson([kind |-> kind, settled |-> settled, hist |-> hist, blocks |-> blocks]))

=============================================================================
