----------------------------- MODULE SchedTrace -----------------------------
(***************************************************************************)
(* Trace specification for plans produced by the real schedulers           *)
(* (lpsd_plan, ltf_plan, vectorized_ltf_plan, new_ltf_plan) and by         *)
(* SpectrumAnalyzer.plan().  One trace = one plan.                         *)
(*                                                                         *)
(* Per-trace constants  c = [N, on, od, bn, bd, Lmin, Jdes, Kdes, sched,   *)
(*                           qc, qrho, logsp]                              *)
(*   olap = on/od, bmin = bn/bd, qc = round(c*2^16) with                   *)
(*   c = (N/2)^(1/Jdes)-1, qrho = round(rho*2^20) the ratio of the         *)
(*   vectorised scheduler's lookup grid, logsp = 1 when the log-spacing    *)
(*   clause is evaluated (N <= 512, 32-bit arithmetic).                    *)
(* Events:                                                                 *)
(*   [t |-> "bin", L, K, navg, nD, D (full vector or <<>>), d0, dlast,     *)
(*    mind, dev2, qf, qb, qO, rl, step, bu, f0u, nyq]                      *)
(*     qf = round(f*N/fs*2^12) (frequency in bins, Q12), qb likewise for   *)
(*     the reported bin number, qO = round(O*2^20); rl, step, bu, f0u are  *)
(*     distances in units in the last place measured by the recorder:      *)
(*     |r*L - fs|, |f[j+1] - (f[j]+r[j])|, |b - f*L/fs|, |f[0]-bmin*fs/N|; *)
(*     nyq = sign(f - fs/2) in floating point (the loop condition itself); *)
(*     for long start vectors the recorder logs the projection             *)
(*     (d0, dlast, mind = smallest difference, dev2 = max 2*|D[i]*(K-1) -  *)
(*     i*(N-L)|) instead of D.                                             *)
(*   [t |-> "hbin", ...]       the same for records longer than 2^18       *)
(*                             samples, without the Q12 frequency fields   *)
(*   [t |-> "built", ok, same, eqltf]  SpectrumAnalyzer(...).plan()        *)
(*                             succeeded; its plan equals the scheduler's  *)
(*                             (f, r, L, K, D); eqltf: an lpsd plan equals *)
(*                             ltf_plan(bmin = 1, Lmin = 1) (1 otherwise)  *)
(* A trace may be recorded after an earlier call in the same process that  *)
(* differed in one parameter (meta.pre): the clauses are the same - plans  *)
(* are functions of the configuration alone.                               *)
(*   [t |-> "count", a, b]     bin counts of the vectorised / iterative    *)
(*                             schedulers for one configuration            *)
(* Every clause is named "Cxx:..." after the property it belongs to.       *)
(***************************************************************************)
EXTENDS Exact, Json, IOUtils

Traces == JsonDeserialize(IOEnv.TRACE_FILE)
Seg == INSTANCE SegOps

VARIABLES tid, l, prev
vars == <<tid, l, prev>>

Check(name, c) == IF c THEN TRUE ELSE PrintT(<<"FAIL", tid, l, name>>)   \* report and go on: every clause of every event is evaluated

Init == tid \in 1..Len(Traces) /\ l = 1 /\ prev = <<>>

T  == Traces[tid]
C  == T.c
Ev == T.ev[l]
N  == C.N
Xov == <<C.od - C.on, C.od>>
Q12 == 4096
Q20 == 1048576

NumBins == Cardinality({i \in 1..Len(T.ev) : T.ev[i].t \in {"bin", "hbin"}})

(* ---- start vector clauses, on the full vector when logged, else on the projection ---- *)
StartsFull(e) ==
    /\ Check("C02:starts_in_range", \A i \in 1..Len(e.D) : e.D[i] >= 0 /\ e.D[i] + e.L <= N)
    /\ Check("C02:starts_strictly_increasing", IsStrictlyIncreasing(e.D))
    /\ Check("C04:starts_evenly_spread", \A i \in 0..(Len(e.D) - 1) : Seg!StartNearIdeal(e.D, i, Len(e.D), N, e.L))
StartsProjected(e) ==
    /\ Check("C02:starts_in_range", e.d0 >= 0 /\ e.dlast + e.L <= N /\ (e.nD = 1 \/ e.mind >= 0))
    /\ Check("C02:starts_strictly_increasing", e.nD = 1 \/ e.mind >= 1)
    /\ Check("C04:starts_evenly_spread", e.nD = 1 \/ e.dev2 <= e.nD - 1)

(* ---- C04 log spacing: bins strictly inside regime A with no clamp active ---- *)
(* f*c > freslim*(1 + 2^-8)  in bins:  qf*qc/2^28 > FL   (MulQ20 on Q12 x Q16 gives Q8)              *)
FLNum == (C.od - C.on) * (C.Kdes - 1) + C.od          \* FL = FLNum / od
InRegimeA(e) ==
    LET fc8 == MulQ20(e.qf, C.qc)                     \* f*c in Q8
    IN CmpFrac(fc8, 256 + 1, FLNum, C.od) > 0         \* f*c/(1+2^-8) > FL
BminInactive == CmpFrac(65536, C.qc + 1, C.bn * 256 + C.bd, C.bd * 256) > 0    \* 1/c > bmin*(1+2^-8)
Unclamped(e) == InRegimeA(e) /\ BminInactive /\ e.L > Max(1, C.Lmin) /\ e.L < N /\ e.K > 1
(* L nearest to N/(f c):  N/(f(L+1/2)) < c <= N/(f(L-1/2)), evaluated with one quantum of slack on qf and qc *)
LogSpacedOk(e) ==
    /\ LET qfe == IF C.sched = "vectorized" THEN MulQ20(e.qf, C.qrho) + 2 ELSE e.qf + 1 IN   \* vectorised: L is taken at a grid frequency in [f, f*rho]
       CmpFrac(C.qc + 1, 65536, 2 * N * Q12, qfe * (2 * e.L + 1)) >= 0             \* c+ >= lower-
    /\ CmpFrac(Max(C.qc - 1, 0), 65536, 2 * N * Q12, Max(e.qf - 1, 1) * (2 * e.L - 1)) <= 0  \* c- <= upper+
(* at least Kdes averages up to the rounding of L: Ideal(N, L - 1/2) >= Kdes - 1/2 *)
EnoughAverages(e) ==
    LET l2 == 2 * e.L - 1 IN
    \* 1 + (2N - l2) * od / ((od - on) * l2) >= (2 Kdes - 1)/2
    CmpFrac((C.od - C.on) * l2 + (2 * N - l2) * C.od, (C.od - C.on) * l2, 2 * C.Kdes - 1, 2) >= 0

(* |q/2^20 - num/den| <= 2/2^20 without products *)
NearFracPos(q, num, den) ==
    /\ (q - 2 <= 0 \/ CmpFrac(q - 2, Q20, num, den) <= 0)
    /\ q + 2 >= 0 /\ CmpFrac(num, den, q + 2, Q20) <= 0
NearFrac(q, num, den) == IF num >= 0 THEN NearFracPos(q, num, den) ELSE NearFracPos(-q, -num, den)

(* ---- C03 bin-number floor: f*(L+1/2)/N >= bmin (vectorised: f replaced by f*rho) ---- *)
BinFloorOk(e) ==
    LET qfe == IF C.sched = "vectorized" THEN MulQ20(e.qf, C.qrho) + 2 ELSE e.qf + 2
    IN CmpFrac(qfe, 2 * N * Q12, C.bn, C.bd * (2 * e.L + 1)) >= 0

Bin ==
    /\ l <= Len(T.ev) /\ Ev.t = "bin"
    /\ LET e == Ev IN
       \* ---------------- C02 ----------------
       /\ Check("C02:at_least_one_average", e.navg >= 1 /\ e.K >= 1)
       /\ Check("C02:navg_equals_number_of_starts", e.navg = e.nD /\ e.K = e.nD)
       /\ Check("C02:first_start_is_zero", e.d0 = 0)
       /\ Check("C02:last_segment_ends_at_last_sample", e.dlast + e.L = N)
       /\ Check("C02:length_bounds", Max(1, C.Lmin) <= e.L /\ e.L <= N)
       /\ Check("C02:single_segment_uses_whole_record", e.K # 1 \/ e.L = N)
       /\ IF Len(e.D) > 0 THEN StartsFull(e) ELSE StartsProjected(e)
       \* ---------------- C03 ----------------
       /\ Check("C03:dft_constraint_rL_eq_fs", e.rl <= 1)
       /\ Check("C03:stepping_f_next_eq_f_plus_r", e.step <= 1)
       /\ Check("C03:bin_number_is_fL_over_fs", e.bu <= 4)
       /\ Check("C03:grid_starts_at_bmin", prev # <<>> \/ e.f0u <= 2)
       /\ Check("C03:grid_strictly_increasing", prev = <<>> \/ e.qf > prev.qf)
       /\ Check("C03:grid_steps_by_resolution", prev = <<>> \/ Within((e.qf - prev.qf) * prev.L, N * Q12, prev.L + 2))
       /\ Check("C03:below_nyquist", e.nyq < 0 /\ 2 * e.qf <= N * Q12 + 1)
       /\ Check("C03:bin_number_not_below_bmin", BinFloorOk(e))
       \* ---------------- C04 ----------------
       /\ Check("C04:length_never_increases", prev = <<>> \/ e.L <= prev.L)
       /\ Check("C04:averages_never_decrease", prev = <<>> \/ e.navg >= prev.navg)
       /\ Check("C04:averages_nearest_to_ideal_capped", Seg!KOk(e.navg, N, e.L, Xov))
       /\ Check("C04:reported_overlap_is_realised_overlap",
                IF e.nD = 1 THEN e.qO = 0
                ELSE NearFrac(e.qO, e.L * (e.nD - 1) - (e.dlast - e.d0), e.L * (e.nD - 1)))
       /\ Check("C04:log_spaced_where_unclamped",
                (C.logsp = 0 \/ C.sched = "new" \/ ~Unclamped(e)) \/ LogSpacedOk(e))
       /\ Check("C04:at_least_Kdes_averages_where_unclamped",
                (C.logsp = 0 \/ C.sched = "new" \/ ~Unclamped(e)) \/ EnoughAverages(e))
       /\ prev' = [qf |-> e.qf, L |-> e.L, navg |-> e.navg]
    /\ l' = l + 1
    /\ UNCHANGED tid

Built ==
    /\ l <= Len(T.ev) /\ Ev.t = "built"
    /\ Check("C02:plan_built_through_analyzer", Ev.ok = 1)
    /\ Check("C02:at_least_one_bin", NumBins >= 1)
    \* the analyzer only forwards the configuration: same frequencies (C03), same lengths and counts (C04), same starts (C02)
    /\ Check("C03:lpsd_is_ltf_with_bmin_1_and_Lmin_1", Ev.eqltf = 1)
    /\ Check("C02:analyzer_plan_is_the_scheduler_plan", Ev.ok = 0 \/ Ev.same = 1)
    /\ Check("C03:analyzer_plan_is_the_scheduler_plan", Ev.ok = 0 \/ Ev.same = 1)
    /\ Check("C04:analyzer_plan_is_the_scheduler_plan", Ev.ok = 0 \/ Ev.same = 1)
    /\ l' = l + 1 /\ UNCHANGED <<tid, prev>>

(* bin counts of the vectorised and the iterative scheduler agree to 10 % (one bin below 10 bins) *)
Count ==
    /\ l <= Len(T.ev) /\ Ev.t = "count"
    /\ Check("C04:vectorised_bin_count_within_10_percent", 10 * Abs(Ev.a - Ev.b) <= Max(Ev.b, 10))
    /\ l' = l + 1 /\ UNCHANGED <<tid, prev>>

(* bins of plans for very long records (N > 2^18, up to a few 10^5 segments per bin): the start-vector, count and overlap   *)
(* clauses, which stay within 32-bit arithmetic; the frequency-grid clauses (Q12 frequencies times N) are left to Bin.      *)
HBin ==
    /\ l <= Len(T.ev) /\ Ev.t = "hbin"
    /\ LET e == Ev IN
       /\ Check("C02:at_least_one_average", e.navg >= 1 /\ e.K >= 1)
       /\ Check("C02:navg_equals_number_of_starts", e.navg = e.nD /\ e.K = e.nD)
       /\ Check("C02:first_start_is_zero", e.d0 = 0)
       /\ Check("C02:last_segment_ends_at_last_sample", e.dlast + e.L = N)
       /\ Check("C02:length_bounds", Max(1, C.Lmin) <= e.L /\ e.L <= N)
       /\ Check("C02:single_segment_uses_whole_record", e.K # 1 \/ e.L = N)
       /\ StartsProjected(e)
       /\ Check("C03:dft_constraint_rL_eq_fs", e.rl <= 1)
       /\ Check("C03:stepping_f_next_eq_f_plus_r", e.step <= 1)
       /\ Check("C03:bin_number_is_fL_over_fs", e.bu <= 4)
       /\ Check("C03:below_nyquist", e.nyq < 0)
       /\ Check("C04:length_never_increases", prev = <<>> \/ e.L <= prev.L)
       /\ Check("C04:averages_never_decrease", prev = <<>> \/ e.navg >= prev.navg)
       /\ Check("C04:averages_nearest_to_ideal_capped", Seg!KOk(e.navg, N, e.L, Xov))
       /\ Check("C04:reported_overlap_is_realised_overlap",
                IF e.nD = 1 THEN e.qO = 0
                ELSE NearFrac(e.qO, e.L * (e.nD - 1) - (e.dlast - e.d0), e.L * (e.nD - 1)))
       /\ prev' = [qf |-> 0, L |-> e.L, navg |-> e.navg]
    /\ l' = l + 1
    /\ UNCHANGED tid

Next == Bin \/ HBin \/ Built \/ Count
Spec == Init /\ [][Next]_vars

Done == (l = Len(T.ev) + 1) => PrintT(<<"OK", tid>>)
=============================================================================
