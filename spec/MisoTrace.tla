------------------------------ MODULE MisoTrace ------------------------------
(***************************************************************************)
(* Trace specification for the optimal multi-input subtraction run on real *)
(* random systems (q = 1..4 inputs, both solvers, permuted / re-mixed /    *)
(* rescaled inputs, exact combinations, delayed couplings, SISO).          *)
(*  c  = [q]                                                               *)
(*  ev = [v (variant), j (bin), K (segments of the bin), r (residual power *)
(*        over the output's own power, Q 2^20), kind]                      *)
(*   kind "ref"    analytic solver on the reference inputs (one per bin,   *)
(*                 first in the trace, in bin order)                       *)
(*   kind "same"   a variant that must give the same residual             *)
(*   kind "zero"   output is an exact static combination of the inputs     *)
(*   kind "pair"   the inputs as integer samples (ADC counts) against the  *)
(*                 same numbers as float64 (r0): the number format of the  *)
(*                 inputs must not matter (the output stays a float record)*)
(*   kind "siso"   q = 1: r is sqrt(Gyy(1-coh))^2/Gyy from the two-channel *)
(*                 analysis itself                                         *)
(* c.kmin = q, or 64 for nearly collinear inputs (condition number 1e8).   *)
(* Every clause is asserted on bins averaged over more than kmin segments: *)
(* with K <= q the spectral matrix of the inputs is singular and the       *)
(* optimal transfer functions are not defined.                             *)
(***************************************************************************)
EXTENDS Exact, Json, IOUtils
Traces == JsonDeserialize(IOEnv.TRACE_FILE)
VARIABLES tid, l
vars == <<tid, l>>
Check(name, c) == IF c THEN TRUE ELSE PrintT(<<"FAIL", tid, l, name>>)
T  == Traces[tid]
Ev == T.ev[l]
Q == 1048576
Init == tid \in 1..Len(Traces) /\ l = 1
Ref(j) == T.ev[j]
Step ==
    /\ l <= Len(T.ev)
    /\ LET e == Ev IN
       /\ Check("C15:residual_between_zero_and_output_spectrum", e.K <= T.c.kmin \/ (e.r >= 0 /\ e.r <= Q + 4))
       /\ Check("C15:residual_unchanged_by_reordering_remixing_solver", e.kind # "same" \/ e.K <= T.c.kmin \/ Within(e.r, Ref(e.j).r, 16))
       /\ Check("C15:residual_zero_for_exact_combination", e.kind # "zero" \/ e.K <= T.c.kmin \/ e.r <= 16)
       \* the same in power units of 2^-30 (an ASD ratio of 6e-5): "zero to rounding" also for inputs correlated to 1e-4, where rounding is 1e-7
       /\ Check("C15:residual_zero_to_rounding_for_exact_combination", e.kind # "zero" \/ e.K <= T.c.kmin \/ e.r30 <= 4)
       /\ Check("C15:residual_independent_of_sample_number_format", e.kind # "pair" \/ e.K <= T.c.kmin \/ Within(e.r, e.r0, 4))
       /\ Check("C15:single_input_residual_is_Gyy_times_one_minus_coherence", e.kind # "siso" \/ e.K <= T.c.kmin \/ Within(e.r, Ref(e.j).r, 16))
    /\ l' = l + 1 /\ UNCHANGED tid
Next == Step
Spec == Init /\ [][Next]_vars
Done == (l = Len(T.ev) + 1) => PrintT(<<"OK", tid>>)
=============================================================================
