----------------------------- MODULE JdesSearch -----------------------------
(***************************************************************************)
(* speckit/utils.py:find_Jdes_binary_search and its use by                 *)
(* SpectrumAnalyzer.plan(force_target_nf=True) (analysis.py:417-434).      *)
(*                                                                         *)
(* The scheduler is abstracted to the function nf : Jdes -> number of bins *)
(* (chosen in Init among ALL functions of the scope, monotone or not).     *)
(*   Probe   J = (lower+upper) div 2; call the scheduler                   *)
(*   Found / GoUp / GoDown / Fail                                          *)
(*   Replan  the analyzer stores the solved Jdes and regenerates the plan  *)
(*           (or raises RuntimeError when the search returned None)        *)
(***************************************************************************)
EXTENDS Exact, Json

CONSTANTS Lo, Hi, MaxNf, EmitRuns

VARIABLES nf, target, lower, upper, probes, result, pc, final
vars == <<nf, target, lower, upper, probes, result, pc, final>>

None == -1

Init ==
    /\ nf \in [Lo..Hi -> 0..MaxNf]
    /\ target \in 0..MaxNf
    /\ lower = Lo /\ upper = Hi /\ probes = <<>> /\ result = None /\ pc = "search" /\ final = [nf |-> None, raised |-> FALSE]

Mid == (lower + upper) \div 2

Found  == /\ pc = "search" /\ lower <= upper /\ nf[Mid] = target
          /\ probes' = Append(probes, Mid) /\ result' = Mid /\ pc' = "replan"
          /\ UNCHANGED <<nf, target, lower, upper, final>>
GoUp   == /\ pc = "search" /\ lower <= upper /\ nf[Mid] < target
          /\ probes' = Append(probes, Mid) /\ lower' = Mid + 1
          /\ UNCHANGED <<nf, target, upper, result, pc, final>>
GoDown == /\ pc = "search" /\ lower <= upper /\ nf[Mid] > target
          /\ probes' = Append(probes, Mid) /\ upper' = Mid - 1
          /\ UNCHANGED <<nf, target, lower, result, pc, final>>
Fail   == /\ pc = "search" /\ lower > upper
          /\ result' = None /\ pc' = "replan"
          /\ UNCHANGED <<nf, target, lower, upper, probes, final>>
Replan == /\ pc = "replan"
          /\ final' = IF result = None THEN [nf |-> None, raised |-> TRUE] ELSE [nf |-> nf[result], raised |-> FALSE]
          /\ pc' = "done"
          /\ UNCHANGED <<nf, target, lower, upper, probes, result>>

Next == Found \/ GoUp \/ GoDown \/ Fail \/ Replan
Spec == Init /\ [][Next]_vars
FairSpec == Spec /\ WF_vars(Next)
Terminates == <>(pc = "done")        \* the search window shrinks with every probe

(* ---- invariants ---- *)
NeverWrong     == result # None => nf[result] = target
ForcedIsExact  == pc = "done" => (final.raised \/ final.nf = target)
RECURSIVE Log2Ceil(_)
Log2Ceil(n)    == IF n <= 1 THEN 0 ELSE 1 + Log2Ceil((n + 1) \div 2)
ProbeBound     == Len(probes) <= Log2Ceil(Hi - Lo + 1) + 1
WindowShrinks  == lower >= Lo /\ upper <= Hi
Monotone       == \A a \in Lo..Hi : \A b \in Lo..Hi : a <= b => nf[a] <= nf[b]
(* completeness for monotone schedulers: a reachable target is found *)
CompleteIfMonotone == (pc = "done" /\ Monotone /\ (\E J \in Lo..Hi : nf[J] = target)) => result # None
(* the search only ever probes inside the current window and never repeats a probe *)
ProbesDistinct == \A i \in 1..Len(probes) : \A j \in 1..Len(probes) : i # j => probes[i] # probes[j]

Run == [lo |-> Lo, hi |-> Hi, nf |-> [J \in 1..(Hi - Lo + 1) |-> nf[Lo + J - 1]], target |-> target,
        probes |-> probes, result |-> result, raised |-> final.raised]
EmitRun == (pc = "done" /\ EmitRuns) => PrintT(ToJson(Run))
=============================================================================
