---------------------------- MODULE AnalyzerTrace ----------------------------
(***************************************************************************)
(* Trace specification for analyses of lattice records run through the     *)
(* real SpectrumAnalyzer (full, band-restricted and single-bin).  The      *)
(* specification itself evaluates the reference estimator (KernelOps       *)
(* !DefStats) for the segmentation each event REPORTS and compares it with *)
(* the logged statistics.                                                  *)
(*   c  = [x, y, win, order, mode, N]       (integer records, window id)   *)
(*   ev = [kind ("full" | "single"), L, D, c2,                             *)
(*         q |-> <<MXX, MYY, mu_r, mu_i/sin w, M2>> in Q 2^16,             *)
(*         m2scale (Q-scale of q[5]), S12, S2 (window sums), K, navg]      *)
(***************************************************************************)
EXTENDS KernelOps, Json, IOUtils

Traces == JsonDeserialize(IOEnv.TRACE_FILE)
VARIABLES tid, l
vars == <<tid, l>>
Check(name, c) == IF c THEN TRUE ELSE PrintT(<<"FAIL", tid, l, name>>)   \* report and go on: every clause of every event is evaluated
T  == Traces[tid]
Ev == T.ev[l]
Q16 == 65536

Init == tid \in 1..Len(Traces) /\ l = 1

(* |q/2^16 - num/den| <= 2/2^16, product free; num may be negative *)
NearPosQ(q, Qs, num, den) ==
    /\ (q - 2 <= 0 \/ CmpFrac(q - 2, Qs, num, den) <= 0)
    /\ q + 2 >= 0 /\ CmpFrac(num, den, q + 2, Qs) <= 0
NearQ(q, Qs, num, den) == IF num >= 0 THEN NearPosQ(q, Qs, num, den) ELSE NearPosQ(-q, Qs, -num, den)
Near(q, num, den) == NearQ(q, Q16, num, den)

Bin ==
    /\ l <= Len(T.ev)
    /\ LET e == Ev
           cfg == [x |-> T.c.x, y |-> T.c.y, L |-> e.L, D |-> e.D, win |-> T.c.win, c2 |-> e.c2, order |-> T.c.order, mode |-> T.c.mode]
           w == Win(T.c.win, e.L)
           inr == \A j \in 1..Len(e.D) : e.D[j] >= 0 /\ e.D[j] + e.L <= T.c.N
       IN
       /\ Check("C05:reported_starts_inside_record", inr)
       /\ Check("C05:K_navg_equal_number_of_starts", e.K = Len(e.D) /\ e.navg = Len(e.D))
       /\ Check("C05:window_sums", e.S12 = SumSeq(w) * SumSeq(w) /\ e.S2 = Dot(w, w))
       /\ inr =>
          LET st == DefStats(cfg)
              K == st.K
              s2 == Scale(T.c.order, e.L) * Scale(T.c.order, e.L)
          IN /\ Check("C05:XX_is_reference_estimate", Near(e.q[1], st.xx, K * s2))
             /\ Check("C05:YY_is_reference_estimate", Near(e.q[2], st.yy, K * s2))
             /\ Check("C05:XY_real_is_reference_estimate", Near(e.q[3], st.xy[1], 2 * K * s2))
             /\ Check("C05:XY_imag_is_reference_estimate", Near(e.q[4], st.xy[2], K * s2))
             /\ Check("C05:M2_is_reference_scatter", ~st.m2ok \/ NearQ(e.q[5], e.m2scale, st.m2, K * K * s2 * s2))   \* the scatter is logged with its own scale (it is quartic)
    /\ l' = l + 1 /\ UNCHANGED tid

Next == Bin
Spec == Init /\ [][Next]_vars
Done == (l = Len(T.ev) + 1) => PrintT(<<"OK", tid>>)
=============================================================================
