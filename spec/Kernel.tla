------------------------------- MODULE Kernel -------------------------------
(***************************************************************************)
(* The single-bin kernels of speckit/core.py and speckit/core_cuda.py on   *)
(* the exact lattice: integer samples, integer windows, 2cos(w) = c2.      *)
(*                                                                         *)
(* One behaviour = one kernel call.  Init picks the call's arguments       *)
(* (record(s), L, start vector, window, c2, detrend order, auto/cross);    *)
(* the actions walk through the kernel exactly as the code does:           *)
(*   Detrend   per segment, per channel: mean / polynomial projection      *)
(*             (core.py:_apply_detrend0..., _apply_poly_detrend...)        *)
(*   Step      one Goertzel sample  s0 = v + c2*s1 - s2                    *)
(*   Finalise  r = s1 - s2 cos w, i = s2 sin w ; the four per-segment      *)
(*             products with the SciPy sign Im = i1 r2 - r1 i2             *)
(*   Reduce    _reduce_stats_nb: means and population scatter (K >= 2)     *)
(* Grain = "segment" performs the L Goertzel steps of a channel in one     *)
(* action (same arithmetic, fewer states); Grain = "sample" exposes every  *)
(* step so that the loop invariant is checked in every intermediate state. *)
(*                                                                         *)
(* All quantities are integers: the detrended sample is carried times      *)
(* Scale(L, order), so X is carried times Scale, |X|^2 and X conj(Y) times *)
(* Scale^2, and the quartic scatter times Scale^4.                         *)
(***************************************************************************)
EXTENDS KernelOps, Json

CONSTANTS
    Ns,         \* set of record lengths
    Ls,         \* set of segment lengths
    Kmax,       \* longest start vector
    C2s,        \* subset of {-2,-1,0,1,2}
    Orders,     \* subset of {-1,0,1,2}
    Modes,      \* subset of {"auto","csd"}
    Wins,       \* subset of {"rect","ramp","asym"}
    Grain,      \* "sample" | "segment"
    DataSet,    \* "small" | "full"
    EmitCases   \* TRUE: print every finished call as a JSON line

VARIABLES cfg, pc, k, n, ch, v, s1, s2, gx, gy, slots, stats
vars == <<cfg, pc, k, n, ch, v, s1, s2, gx, gy, slots, stats>>

(***************************************************************************)
(* Records.  The statistics are (sesqui)linear, quadratic and quartic      *)
(* forms in the data, so impulses, pairs of impulses and a few dense       *)
(* records determine them.                                                 *)
(***************************************************************************)
Impulse(N, p, a)       == [i \in 1..N |-> IF i = p THEN a ELSE 0]
Pair(N, p, q, a, b)    == [i \in 1..N |-> IF i = p THEN a ELSE IF i = q THEN b ELSE 0]
Dense1 == <<2, -1, 0, 1, -2, 1, 2, -1>>
Dense2 == <<1, 2, -1, -2, 2, 0, -1, 1>>
Dense3 == <<0, 1, 2, 3, 4, 5, 6, 7>>            \* a pure linear trend
Dense4 == <<1, 1, 1, 1, 1, 1, 1, 1>>            \* a constant
Dense5 == <<0, 1, 4, 9, 16, 25, 36, 49>>        \* a pure quadratic
Dense(N) == {[i \in 1..N |-> d[i]] : d \in {Dense1, Dense2, Dense3, Dense4, Dense5}}
Impulses(N) == {Impulse(N, p, a) : p \in 1..N, a \in {1, -2}}
Pairs(N)    == {Pair(N, p, q, 1, b) : p \in 1..N, q \in 1..N, b \in {1, -1}} \ {[i \in 1..N |-> 0]}
(* records carrying polynomial trends of degree 0..3 (C08) *)
TrendOf(N, d, a) == [i \in 1..N |-> a * (IF d = 0 THEN 1 ELSE IF d = 1 THEN i - 1 ELSE IF d = 2 THEN (i - 1) * (i - 1) ELSE (i - 1) * (i - 1) * (i - 1))]
PlusTrend(r, N, d, a) == LET tr == TrendOf(N, d, a) IN [i \in 1..N |-> r[i] + tr[i]]
TrendBases(N) == {[i \in 1..N |-> Dense1[i]], Impulse(N, 2, 1), [i \in 1..N |-> 0]}
TrendAuto(N) == {PlusTrend(b, N, d, 2) : b \in TrendBases(N), d \in 0..3}
TrendCross(N) ==
    LET b1 == [i \in 1..N |-> Dense1[i]]  b2 == [i \in 1..N |-> Dense2[i]] IN
    {<<PlusTrend(b1, N, d, 2), b2>> : d \in 0..3} \cup {<<b1, PlusTrend(b2, N, d, -1)>> : d \in 0..3}
    \cup {<<PlusTrend(b1, N, d, 2), PlusTrend(b2, N, e, -1)>> : d \in 0..2, e \in 1..3}
AutoRecords(N) == IF DataSet = "trend" THEN TrendAuto(N) ELSE IF DataSet = "full" THEN Impulses(N) \cup {r \in Pairs(N) : TRUE} \cup Dense(N)
                  ELSE {Impulse(N, p, 1) : p \in 1..N} \cup Dense(N)
                       \cup {Pair(N, p, p + 1, 1, -1) : p \in 1..(N - 1)}
(* cross mode: pairs (x, y) *)
CrossPairs(N) ==
    LET imp == {<<Impulse(N, p, 1), Impulse(N, q, a)>> : p \in 1..N, q \in 1..N, a \in {1, -2}}
        dd  == {<<a, b>> \in Dense(N) \X Dense(N) : TRUE}
        mix == {<<Impulse(N, p, 1), d>> : p \in 1..N, d \in {[i \in 1..N |-> Dense1[i]]}}
               \cup {<<d, Impulse(N, p, 1)>> : p \in 1..N, d \in {[i \in 1..N |-> Dense2[i]]}}
    IN IF DataSet = "trend" THEN TrendCross(N) ELSE IF DataSet = "full" THEN imp \cup dd \cup mix
       ELSE {<<Impulse(N, p, 1), Impulse(N, q, 1)>> : p \in 1..N, q \in 1..N}
            \cup {<<[i \in 1..N |-> Dense1[i]], [i \in 1..N |-> Dense2[i]]>>,
                  <<[i \in 1..N |-> Dense3[i]], [i \in 1..N |-> Dense1[i]]>>,
                  <<[i \in 1..N |-> Dense2[i]], [i \in 1..N |-> Dense5[i]]>>,
                  <<[i \in 1..N |-> Dense1[i]], [i \in 1..N |-> Dense1[i]]>>}

(***************************************************************************)
(* State machine                                                           *)
(***************************************************************************)
StartVectors(N, L) == UNION {[1..kk -> 0..(N - L)] : kk \in 1..Kmax}

Init ==
    /\ \E N \in Ns : \E L \in {l \in Ls : l <= N} : \E D \in StartVectors(N, L) :
       \E w \in Wins : \E c2 \in C2s : \E o \in Orders : \E m \in Modes :
          IF m = "auto"
          THEN \E x \in AutoRecords(N) :
                 cfg = [N |-> N, L |-> L, D |-> D, win |-> w, c2 |-> c2, order |-> o, mode |-> m, x |-> x, y |-> x]
          ELSE \E xy \in CrossPairs(N) :
                 cfg = [N |-> N, L |-> L, D |-> D, win |-> w, c2 |-> c2, order |-> o, mode |-> m, x |-> xy[1], y |-> xy[2]]
    /\ pc = "detrend" /\ k = 1 /\ n = 0 /\ ch = "x"
    /\ v = <<>> /\ s1 = 0 /\ s2 = 0 /\ gx = ZZero /\ gy = ZZero
    /\ slots = <<>> /\ stats = [K |-> 0]

K == Len(cfg.D)
W == Win(cfg.win, cfg.L)
Rec(c) == IF c = "x" THEN cfg.x ELSE cfg.y

(* core.py: mean / alpha = Q^T seg for the current channel of the current segment *)
Detrend ==
    /\ pc = "detrend"
    /\ v' = Samples(Rec(ch), cfg.D[k], cfg.L, cfg.order, W)
    /\ n' = 0 /\ s1' = 0 /\ s2' = 0
    /\ pc' = "goertzel"
    /\ UNCHANGED <<cfg, k, ch, gx, gy, slots, stats>>

(* one sample of the recurrence (Grain = "sample") *)
Step ==
    /\ pc = "goertzel" /\ Grain = "sample" /\ n < cfg.L
    /\ s1' = v[n + 1] + cfg.c2 * s1 - s2
    /\ s2' = s1
    /\ n' = n + 1
    /\ UNCHANGED <<cfg, pc, k, ch, v, gx, gy, slots, stats>>

(* the whole loop of one channel (Grain = "segment") *)
Loop ==
    /\ pc = "goertzel" /\ Grain = "segment" /\ n = 0 /\ cfg.L > 0
    /\ LET r == GoertzelRegs(cfg.c2, v, cfg.L) IN s1' = r[1] /\ s2' = r[2]
    /\ n' = cfg.L
    /\ UNCHANGED <<cfg, pc, k, ch, v, gx, gy, slots, stats>>

(* r = s1 - s2*cos, i = s2*sin ; then either go to channel y or form the products *)
Finalise ==
    /\ pc = "goertzel" /\ n = cfg.L
    /\ LET g == GoertzelOut(cfg.c2, <<s1, s2>>) IN
       IF ch = "x" /\ cfg.mode = "csd"
       THEN /\ gx' = g /\ ch' = "y" /\ pc' = "detrend"
            /\ UNCHANGED <<gy, slots, k>>
       ELSE LET a == IF cfg.mode = "auto" THEN g ELSE gx
                b == g
            IN /\ gx' = a /\ gy' = b
               /\ slots' = Append(slots, Products(cfg.c2, a, b))
               /\ ch' = "x"
               /\ IF k < K THEN k' = k + 1 /\ pc' = "detrend" ELSE k' = k /\ pc' = "reduce"
    /\ UNCHANGED <<cfg, n, v, s1, s2, stats>>

Reduce ==
    /\ pc = "reduce"
    /\ stats' = ReduceSlots(cfg.c2, slots)
    /\ pc' = "done"
    /\ UNCHANGED <<cfg, k, n, ch, v, s1, s2, gx, gy, slots>>

Next == Detrend \/ Step \/ Loop \/ Finalise \/ Reduce
Spec == Init /\ [][Next]_vars

(***************************************************************************)
(* Invariants                                                              *)
(***************************************************************************)
TypeOK == pc \in {"detrend", "goertzel", "reduce", "done"} /\ k \in 1..Kmax /\ n \in 0..cfg.L

(* Loop invariant of the recurrence: after n samples                          *)
(*   s1 - zetabar*s2 = zeta^(n-1) * sum_{m<n} v[m] zetabar^m                  *)
(* stated without division: zetabar^(n-1) * (s1 - zetabar s2) = partial sum   *)
GoertzelLoopInv ==
    pc = "goertzel" /\ n >= 1 =>
        ZEq(cfg.c2,
            ZMul(cfg.c2, ZPow(cfg.c2, ZetaBar(cfg.c2), n - 1), GoertzelOut(cfg.c2, <<s1, s2>>)),
            DefSum(cfg.c2, v, n))

(* At the end the kernel's statistics are those of the definition. *)
KernelEqualsDefinition == pc = "done" => stats = DefStats(cfg)

(* per-segment: |G|^2 = |X|^2 and G1 conj(G2) = X conj(Y) (the common phase cancels) *)
SlotsMatchDefinition ==
    (Len(slots) >= 1 /\ ch = "x" /\ pc \in {"detrend", "reduce"}) =>
        LET j == Len(slots)  d == SegProducts(cfg, j) IN
        /\ slots[j].xx = d.xx /\ slots[j].yy = d.yy
        /\ ZEq(cfg.c2, slots[j].xy, d.xy)

AutoIsDiagonal ==
    pc = "done" /\ cfg.mode = "auto" =>
        /\ stats.xx = stats.yy
        /\ stats.xy = <<2 * stats.xx, 0>>

ScatterNonNeg    == pc = "done" /\ stats.m2ok => stats.m2 >= 0
ScatterZeroIfK1  == pc = "done" /\ K = 1 => stats.m2 = 0
(* Cauchy-Schwarz for the averaged statistics: |sum Z|^2 <= sum XX * sum YY *)
CauchySchwarz ==
    pc = "done" /\ stats.xx < 20000 /\ stats.yy < 20000 /\ Abs(stats.xy[1]) < 25000 /\ Abs(stats.xy[2]) < 12000 =>
        LET t == stats.xy IN
        \* |Z|^2 = Re^2 + Im^2 = (t1/2)^2 + t2^2 sin^2 w ; times 4:
        t[1] * t[1] + t[2] * t[2] * Sin2x4(cfg.c2) <= 4 * stats.xx * stats.yy

(* Detrending (C08): adding a polynomial of degree <= order to the segment      *)
(* leaves the detrended samples unchanged; degree order+1 does not (L > order+1) *)
(* the detrend lemmas do not depend on the window or the frequency: checked once per (record, L, start, order) *)
DetrendLemmaScope == cfg.win = "rect" /\ cfg.c2 = 0
PolyVals(d, L) == [i \in 1..L |-> IF d = 0 THEN 1 ELSE IF d = 1 THEN i - 1 ELSE IF d = 2 THEN (i - 1) * (i - 1) ELSE (i - 1) * (i - 1) * (i - 1)]
DetrendAnnihilates ==
    pc = "goertzel" /\ n = 0 /\ DetrendLemmaScope /\ cfg.order >= 0 =>
        \A d \in 0..cfg.order : \A a \in {1, -3} :
            LET seg == SubSeq0(Rec(ch), cfg.D[k], cfg.L)
                pv  == PolyVals(d, cfg.L)
                seg2 == [i \in 1..cfg.L |-> seg[i] + a * pv[i]]
            IN Residual(seg2, cfg.order, cfg.L) = Residual(seg, cfg.order, cfg.L)
DetrendSensitive ==
    pc = "goertzel" /\ n = 0 /\ DetrendLemmaScope /\ cfg.L >= cfg.order + 2 =>
        LET seg == SubSeq0(Rec(ch), cfg.D[k], cfg.L)
            pv  == PolyVals(cfg.order + 1, cfg.L)
            seg2 == [i \in 1..cfg.L |-> seg[i] + pv[i]]
        IN Residual(seg2, cfg.order, cfg.L) # Residual(seg, cfg.order, cfg.L)
OrderMinus1IsRaw ==
    pc = "goertzel" /\ n = 0 /\ cfg.order = -1 =>
        v = [i \in 1..cfg.L |-> W[i] * Rec(ch)[cfg.D[k] + i]]
ResidualOrthogonal ==
    pc = "goertzel" /\ n = 0 /\ DetrendLemmaScope /\ cfg.order >= 0 =>
        LET seg == SubSeq0(Rec(ch), cfg.D[k], cfg.L)
            r == Residual(seg, cfg.order, cfg.L)
        IN \A d \in 0..cfg.order : Dot(r, PolyVals(d, cfg.L)) = 0

(* Emission of finished calls for replay into the real kernels *)
Case == [N |-> cfg.N, L |-> cfg.L, D |-> cfg.D, win |-> W, c2 |-> cfg.c2, order |-> cfg.order,
         mode |-> cfg.mode, x |-> cfg.x, y |-> cfg.y, scale |-> Scale(cfg.order, cfg.L),
         slots |-> [j \in 1..Len(slots) |-> <<slots[j].xx, slots[j].yy, ZCanon(cfg.c2, slots[j].xy)[1], ZCanon(cfg.c2, slots[j].xy)[2]>>],
         exp |-> stats]
Emit == (pc = "done" /\ EmitCases) => PrintT(ToJson(Case))
=============================================================================
