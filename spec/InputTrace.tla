------------------------------ MODULE InputTrace ------------------------------
(***************************************************************************)
(* Trace specification binding Input.tla to what the real SpectrumAnalyzer *)
(* does with the caller's object.  One event per constructed analyzer:     *)
(*   [layout, dtype, mem, nbad (number of non-finite samples),             *)
(*    shares    1 iff analyzer.data shares memory with the caller's buffer *)
(*    abad      number of non-finite samples left in analyzer.data         *)
(*    changed   1 iff the caller's bytes changed                           *)
(*    zeroed    1 iff analyzer.data equals the zero-filled record]         *)
(* The observed final state must be the `ready` state Input.tla (copy on   *)
(* sanitise) reaches for that scenario: this also checks the model's       *)
(* assumption about when NumPy returns the caller's own buffer.            *)
(***************************************************************************)
EXTENDS Input, IOUtils
Traces == JsonDeserialize(IOEnv.TRACE_FILE)
VARIABLES tid, l
tvars == <<tid, l>>
Check(name, c) == IF c THEN TRUE ELSE PrintT(<<"FAIL", tid, l, name>>)
T  == Traces[tid]
Ev == T.ev[l]
TInit == tid \in 1..Len(Traces) /\ l = 1
(* [t |-> "finite", nf (number of non-finite values among the density / coherence / transfer-function attributes of a FINITE     *)
(*  record: all-zero, constant, identical channels, ramps, vanishing windows, single bins of length 1..3), pc (number of          *)
(*  non-finite error bars at bins of positive coherence), lmin (harness: the coarse plan reached a bin of length 2: 1/0)]          *)
Step ==
    /\ l <= Len(T.ev)
    /\ IF "t" \in DOMAIN Ev /\ Ev.t = "finite"
       THEN /\ Check("C13:finite_input_gives_finite_estimates", Ev.nf = 0)
            /\ Check("C13:error_bars_finite_where_coherence_is_positive", Ev.pc = 0)
            /\ Check("ANY:harness_plan_reaches_a_length_2_segment", Ev.lmin = 1)
       ELSE LET e == Ev  i == [layout |-> e.layout, dtype |-> e.dtype, mem |-> e.mem] IN
            /\ Check("C13:caller_array_left_untouched", e.changed = 0)
            /\ Check("C13:non_finite_samples_treated_as_zeros", e.abad = 0 /\ e.zeroed = 1)
            /\ Check("C13:buffer_ownership_as_modelled", (e.shares = 1) <=> (e.nbad = 0 /\ AliasesOf(i)))
            /\ Check("C13:no_shared_buffer_when_sanitising", e.nbad = 0 \/ e.shares = 0)
    /\ l' = l + 1 /\ UNCHANGED <<tid, inp, pc, view, abuf, callerBad, analyzerBad>>
TSpec == (TInit /\ inp = [layout |-> "1d"] /\ pc = "trace" /\ view = "none" /\ abuf = "none" /\ callerBad = {} /\ analyzerBad = {}) /\ [][Step]_<<tvars, vars>>
Done == (l = Len(T.ev) + 1) => PrintT(<<"OK", tid>>)
=============================================================================
