--------------------------------- MODULE Miso ---------------------------------
(***************************************************************************)
(* speckit/systems.py: optimal subtraction of q inputs from one output,    *)
(* per frequency bin, exactly (q = 1, 2).                                  *)
(* A bin is described by K segments of Gaussian-integer amplitudes         *)
(* (X1, X2, Y).  The spectral estimates are Gram sums with the library's   *)
(* convention G_ab = sum_k A_k conj(B_k):                                  *)
(*    T_ij = G(x_i, x_j),  S_i0 = G(x_i, y),  S00 = G(y, y)                *)
(* The solvers compute H from sum_j T_ij H_j = S_i0 and the residual       *)
(*    R = S00 - sum_i H_i S0i - sum_i conj(H_i) S_i0                       *)
(*            + sum_ij conj(H_j) H_i T_ji         (S0i = conj(S_i0)).      *)
(* Invariants: R is real, 0 <= R <= S00, R is the least-squares residual   *)
(* min_c sum_k |Y_k - sum_i c_i X_ik|^2 (checked against every small       *)
(* Gaussian-integer c), R = 0 for exact combinations, R is invariant under *)
(* permutation and unimodular re-mixing of the inputs, and for q = 1       *)
(* R = Gyy (1 - coherence).                                                *)
(***************************************************************************)
EXTENDS Exact, Json
CONSTANTS Amps,      \* set of Gaussian integers <<re, im>> used as amplitudes
          EmitCases
VARIABLES c
vars == <<c>>

(* complex rationals <<re, im>> with re, im rationals *)
RZ == <<0, 1>>
CZ == <<RZ, RZ>>
CI(z) == <<<<z[1], 1>>, <<z[2], 1>>>>                     \* Gaussian integer -> complex rational
CAdd(a, b) == <<RAdd(a[1], b[1]), RAdd(a[2], b[2])>>
CSub(a, b) == <<RSub(a[1], b[1]), RSub(a[2], b[2])>>
CMul(a, b) == <<RSub(RMul(a[1], b[1]), RMul(a[2], b[2])), RAdd(RMul(a[1], b[2]), RMul(a[2], b[1]))>>
CConj(a) == <<a[1], RNeg(a[2])>>
CAbs2(a) == RAdd(RMul(a[1], a[1]), RMul(a[2], a[2]))
CDiv(a, b) == LET d == CAbs2(b)  n == CMul(a, CConj(b)) IN <<RDiv(n[1], d), RDiv(n[2], d)>>
CIsZero(a) == a[1][1] = 0 /\ a[2][1] = 0
RECURSIVE GramTo(_, _, _)
GramTo(A, B, k) == IF k = 0 THEN CZ ELSE CAdd(CMul(CI(A[k]), CConj(CI(B[k]))), GramTo(A, B, k - 1))
G(A, B) == GramTo(A, B, Len(A))

Seg3 == [x1 : Amps, x2 : Amps, y : Amps]
Thirds == {[x1 |-> <<1, 0>>, x2 |-> <<0, -1>>, y |-> <<1, 1>>], [x1 |-> <<0, 1>>, x2 |-> <<1, 0>>, y |-> <<0, 0>>], [x1 |-> <<-1, 1>>, x2 |-> <<1, 1>>, y |-> <<2, -1>>]}
(* two steps so that TLC's workers share the enumeration: Init fixes q and the first segment, Pick the other two *)
Init == \E q \in {1, 2} : \E s1 \in Seg3 : c = [q |-> q, first |-> s1, ready |-> FALSE]
Pick == /\ ~c.ready
        /\ \E s2 \in Seg3 : \E s3 \in Thirds :
              c' = [q |-> c.q, ready |-> TRUE, X1 |-> <<c.first.x1, s2.x1, s3.x1>>, X2 |-> <<c.first.x2, s2.x2, s3.x2>>, Y |-> <<c.first.y, s2.y, s3.y>>]
Next == Pick
Spec == Init /\ [][Next]_vars

T11(m) == G(m.X1, m.X1)
T12(m) == G(m.X1, m.X2)
T21(m) == G(m.X2, m.X1)
T22(m) == G(m.X2, m.X2)
S10(m) == G(m.X1, m.Y)
S20(m) == G(m.X2, m.Y)
S00(m) == G(m.Y, m.Y)
Det(m) == CSub(CMul(T11(m), T22(m)), CMul(T12(m), T21(m)))
Solvable(m) == IF m.q = 1 THEN ~CIsZero(T11(m)) ELSE ~CIsZero(Det(m))
H1(m) == IF m.q = 1 THEN CDiv(S10(m), T11(m)) ELSE CDiv(CSub(CMul(S10(m), T22(m)), CMul(T12(m), S20(m))), Det(m))
H2(m) == CDiv(CSub(CMul(T11(m), S20(m)), CMul(T21(m), S10(m))), Det(m))
(* the residual formula of both solvers (Bendat & Piersol eq. 8.16) *)
Residual(m) ==
    IF m.q = 1
    THEN LET h == H1(m) IN
         CAdd(CSub(CSub(S00(m), CMul(h, CConj(S10(m)))), CMul(CConj(h), S10(m))), CMul(CMul(CConj(h), h), T11(m)))
    ELSE LET h1 == H1(m)  h2 == H2(m)
             sum1 == CAdd(CMul(h1, CConj(S10(m))), CMul(h2, CConj(S20(m))))
             sum2 == CAdd(CMul(CConj(h1), S10(m)), CMul(CConj(h2), S20(m)))
             sum3 == CAdd(CAdd(CMul(CMul(CConj(h1), h1), T11(m)), CMul(CMul(CConj(h2), h1), T21(m))),
                          CAdd(CMul(CMul(CConj(h1), h2), T12(m)), CMul(CMul(CConj(h2), h2), T22(m))))
         IN CAdd(CSub(CSub(S00(m), sum1), sum2), sum3)

(* sum_k |Y_k - c1 X1_k - c2 X2_k|^2 for Gaussian-integer coefficients *)
RECURSIVE FitErr(_, _, _, _)
FitErr(m, c1, c2, k) ==
    IF k = 0 THEN RZ
    ELSE LET e == CSub(CSub(CI(m.Y[k]), CMul(CI(c1), CI(m.X1[k]))), IF m.q = 2 THEN CMul(CI(c2), CI(m.X2[k])) ELSE CZ)
         IN RAdd(CAbs2(e), FitErr(m, c1, c2, k - 1))
Small == {<<0, 0>>, <<1, 0>>, <<-1, 0>>, <<0, 1>>, <<0, -1>>, <<1, 1>>}

ResidualIsReal      == (c.ready /\ Solvable(c)) => Residual(c)[2][1] = 0
ResidualBounds      == (c.ready /\ Solvable(c)) => RLe(RZ, Residual(c)[1]) /\ RLe(Residual(c)[1], S00(c)[1])
ResidualIsLeastSquares == (c.ready /\ Solvable(c)) => \A c1 \in Small : \A c2 \in (IF c.q = 2 THEN Small ELSE {<<0, 0>>}) : RLe(Residual(c)[1], FitErr(c, c1, c2, 3))
(* the conjugate convention: with y = x1 * a the solver finds conj-consistent H and a zero residual *)
ZeroForExactCombination ==
    (c.ready /\ Solvable(c)) => ((\E c1 \in Small : \E c2 \in (IF c.q = 2 THEN Small ELSE {<<0, 0>>}) : FitErr(c, c1, c2, 3) = RZ) => Residual(c)[1] = RZ)
PermutationInvariant ==
    (c.ready /\ c.q = 2 /\ Solvable(c)) => Residual([c EXCEPT !.X1 = c.X2, !.X2 = c.X1]) = Residual(c)
RemixInvariant ==     \* x1' = x1 + x2 (unimodular)
    (c.ready /\ c.q = 2 /\ Solvable(c)) =>
        LET m2 == [c EXCEPT !.X1 = [k \in 1..3 |-> <<c.X1[k][1] + c.X2[k][1], c.X1[k][2] + c.X2[k][2]>>]] IN Residual(m2) = Residual(c)
SisoIsGyyOneMinusCoh ==
    (c.ready /\ c.q = 1 /\ Solvable(c)) => Residual(c)[1] = RSub(S00(c)[1], RDiv(CAbs2(S10(c)), T11(c)[1]))

Emit == (EmitCases /\ c.ready /\ Solvable(c)) =>
    PrintT(ToJson([q |-> c.q, T11 |-> T11(c), T12 |-> T12(c), T22 |-> T22(c), S10 |-> S10(c), S20 |-> S20(c), S00 |-> S00(c), res |-> Residual(c)[1]]))
=============================================================================
