------------------------------- MODULE DspSeq -------------------------------
(***************************************************************************)
(* speckit/dsp.py: the small sequence utilities, as exact case tables.     *)
(*   crop_data(x, y, xmin, xmax)   keep the pairs with xmin <= x <= xmax   *)
(*                                 (a mask: x need not be sorted; order    *)
(*                                 kept), errors for unequal lengths and   *)
(*                                 xmin > xmax, empty in -> empty out      *)
(*   truncation(x, n)              drop n samples from EACH end; n = 0 is  *)
(*                                 the identity; errors for negative n and *)
(*                                 2n > len(x); 2n = len(x) gives empty    *)
(*   frequency2phase(f, fs, m)     (2 pi/fs) * running sum of f (minus its *)
(*                                 mean when m); the model carries the     *)
(*                                 running sum times Len(f) (an integer)   *)
(* Every case is replayed into the real functions (./check EXTRA).         *)
(***************************************************************************)
EXTENDS Integers, Sequences, FiniteSets, TLC, Json

CONSTANTS MaxLen, Vals, EmitCases
VARIABLES c
vars == <<c>>

Seqs == UNION {[1..n -> Vals] : n \in 0..MaxLen}

Init == \/ \E x \in Seqs : \E ly \in {Len(x), Len(x) + 1} : \E lo \in Vals : \E hi \in Vals :
             c = [fn |-> "crop", x |-> x, ly |-> ly, lo |-> lo, hi |-> hi]
        \/ \E x \in Seqs : \E n \in -1..(MaxLen \div 2 + 1) :
             c = [fn |-> "trunc", x |-> x, n |-> n]
        \/ \E x \in Seqs : \E m \in BOOLEAN :
             c = [fn |-> "f2p", x |-> x, m |-> m]
Next == UNCHANGED c
Spec == Init /\ [][Next]_vars

RECURSIVE Filter(_, _, _, _)
Filter(x, lo, hi, i) == IF i > Len(x) THEN <<>>
                        ELSE (IF lo <= x[i] /\ x[i] <= hi THEN <<i>> ELSE <<>>) \o Filter(x, lo, hi, i + 1)
RECURSIVE SumTo(_, _)
SumTo(x, k) == IF k = 0 THEN 0 ELSE x[k] + SumTo(x, k - 1)

Outcome ==
    CASE c.fn = "crop" ->
            IF c.ly # Len(c.x) THEN [kind |-> "error"]
            ELSE IF c.lo > c.hi THEN [kind |-> "error"]
            ELSE [kind |-> "kept", idx |-> Filter(c.x, c.lo, c.hi, 1)]            \* 1-based positions kept, in order
      [] c.fn = "trunc" ->
            IF c.n < 0 \/ 2 * c.n > Len(c.x) THEN [kind |-> "error"]
            ELSE IF c.n = 0 THEN [kind |-> "same"]
            ELSE [kind |-> "kept", idx |-> [k \in 1..(Len(c.x) - 2 * c.n) |-> k + c.n]]
      [] c.fn = "f2p" ->
            IF Len(c.x) = 0 THEN [kind |-> "error"]
            \* N * (running sum of (f - mean)) = N * S_k - k * S_N  : integers
            ELSE [kind |-> "phase", nsum |-> [k \in 1..Len(c.x) |-> IF c.m THEN Len(c.x) * SumTo(c.x, k) - k * SumTo(c.x, Len(c.x))
                                                                        ELSE Len(c.x) * SumTo(c.x, k)]]

(* invariants *)
CropKeepsOrderAndOnlyInRange ==
    (c.fn = "crop" /\ Outcome.kind = "kept") =>
        /\ \A k \in 1..Len(Outcome.idx) : c.lo <= c.x[Outcome.idx[k]] /\ c.x[Outcome.idx[k]] <= c.hi
        /\ \A k \in 1..(Len(Outcome.idx) - 1) : Outcome.idx[k] < Outcome.idx[k + 1]
        /\ Len(Outcome.idx) = Cardinality({i \in 1..Len(c.x) : c.lo <= c.x[i] /\ c.x[i] <= c.hi})
TruncIsSymmetric ==
    (c.fn = "trunc" /\ Outcome.kind = "kept") => Len(Outcome.idx) = Len(c.x) - 2 * c.n /\ (Len(Outcome.idx) > 0 => Outcome.idx[1] = c.n + 1)
MeanFreePhaseReturnsToZero ==
    (c.fn = "f2p" /\ Outcome.kind = "phase" /\ c.m) => Outcome.nsum[Len(c.x)] = 0

Emit == EmitCases => PrintT(ToJson([cfg |-> c, outcome |-> Outcome]))
=============================================================================
