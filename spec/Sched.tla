-------------------------------- MODULE Sched --------------------------------
(***************************************************************************)
(* The LTF / LPSD frequency scheduler of speckit/schedulers.py             *)
(* (ltf_plan, lines 148-276; lpsd_plan = ltf_plan with bmin = 1, Lmin = 1) *)
(* as a state machine in exact rational arithmetic.                        *)
(*                                                                         *)
(* Units: fs = N, so fresmin = 1 and frequencies are in bins.              *)
(* The log factor c = (N/2)^(1/Jdes) - 1 is irrational in general; the     *)
(* model is instantiated on the configurations where it is rational        *)
(* ((1+c)^Jdes = N/2 is asserted in Init), which includes every N for      *)
(* Jdes = 1 and N = 2*m^Jdes otherwise.  The square root of the            *)
(* "compromise" branch never appears: every comparison and rounding        *)
(* involving it is stated in squared form.                                 *)
(*                                                                         *)
(* One action per region of the loop body:                                 *)
(*   Resolve   three-way compromise A / B / C and the bmin clamp, then     *)
(*             dftlen = round_half_up(fs/fres)            (l.181-194)      *)
(*   Clamp     dftlen <= N, dftlen >= Lmin                (l.195-198)      *)
(*   Count     nseg = round_half_up((N-L)/(xov L) + 1); nseg = 1 => L = N  *)
(*   Emit      store bin, fi += fs/L                      (l.204-213)      *)
(*   Place     per bin: navg, start vector                (l.218-236)      *)
(* Floating point can take either side of an exact tie / exact equality,   *)
(* so at those points (and only there) the model admits both.              *)
(***************************************************************************)
EXTENDS Exact, Json

CONSTANTS
    SNs,        \* record lengths
    Olaps,      \* set of <<on, od>>  (olap = on/od)
    Bmins,      \* set of <<bn, bd>>
    LminsOf(_), \* N -> set of Lmin
    Jdess, Kdess,
    Cs,         \* candidate rational log factors <<cn, cd>>
    FDen,       \* common denominator of every frequency (lcm(1..max N) * lcm(bd))
    CapK,       \* TRUE: K is capped at N-L+1 (the repaired scheduler); FALSE: the original code
    EmitPlans

VARIABLES cfg, pc, fi, L, K, bins, placed, kmemo
vars == <<cfg, pc, fi, L, K, bins, placed, kmemo>>

Seg == INSTANCE SegOps

(* ---------- derived configuration values ---------- *)
N      == cfg.N
Xov    == R(cfg.olap[2] - cfg.olap[1], cfg.olap[2])             \* 1 - olap
FL     == RAdd(RInt(1), RMul(Xov, RInt(cfg.Kdes - 1)))          \* freslim / fresmin
C      == cfg.c
Bmin   == cfg.bmin
Fi     == R(fi, FDen)                                           \* current frequency (bins)

RECURSIVE RPow(_, _)
RPow(r, n) == IF n = 0 THEN <<1, 1>> ELSE RMul(r, RPow(r, n - 1))

(* comparison helpers that admit both outcomes at exact equality *)
GeChoices(a, b) == IF REq(a, b) THEN {TRUE, FALSE} ELSE {RLt(b, a)}
GtChoices(a, b) == GeChoices(a, b)
LtChoices(a, b) == IF REq(a, b) THEN {TRUE, FALSE} ELSE {RLt(a, b)}

(* nearest integers to a rational (both at a tie) *)
RoundChoices(r) == {RoundHalfUp(r[1], r[2])} \cup (IF IsTie(r[1], r[2]) THEN {RoundHalfUp(r[1], r[2]) - 1} ELSE {})
(* nearest integers to sqrt(r): k with (k-1/2)^2 <= r <= (k+1/2)^2 *)
RoundSqrtChoices(r) ==
    {k \in 0..(2 * N + 2) :
        /\ (k = 0 \/ CmpFrac((2 * k - 1) * (2 * k - 1), 4, r[1], r[2]) <= 0)
        /\ CmpFrac(r[1], r[2], (2 * k + 1) * (2 * k + 1), 4) <= 0}

(* ---------- Resolve: the set of admissible unclamped lengths L0 ---------- *)
Fres0  == RMul(Fi, C)                                           \* fi * logfact
SecondTest == {IF u THEN "B" ELSE "C" : u \in GtChoices(RMul(FL, Fres0), <<1, 1>>)}   \* sqrt(freslim*fres) > fresmin
Regimes == IF REq(Fres0, FL) THEN {"A"} \cup SecondTest
           ELSE IF RLt(FL, Fres0) THEN {"A"} ELSE SecondTest

(* bmin clamp active?  A: 1/c < bmin ; B: fi/(FL c) < bmin^2 ; C: never *)
ClampChoices(reg) ==
    CASE reg = "A" -> LtChoices(RInv(C), Bmin)
      [] reg = "B" -> LtChoices(RDiv(Fi, RMul(FL, C)), RMul(Bmin, Bmin))
      [] reg = "C" -> {FALSE}
L0Choices(reg, clamp) ==
    IF clamp THEN RoundChoices(RDiv(RMul(RInt(N), Bmin), Fi))
    ELSE CASE reg = "A" -> RoundChoices(RDiv(RInt(N), Fres0))
           [] reg = "B" -> RoundSqrtChoices(RDiv(RInt(N * N), RMul(FL, Fres0)))
           [] reg = "C" -> {N}

(* ---------- state machine ---------- *)
Init ==
    /\ \E n \in SNs : \E o \in Olaps : \E b \in Bmins : \E lm \in LminsOf(n) :
       \E J \in Jdess : \E Kd \in Kdess : \E c \in Cs :
          /\ 2 * b[1] < n * b[2]                                  \* bmin < N/2
          \* (1+c)^Jdes = N/2 ; J = 0 stands for a real-valued Jdes = log(N/2)/log(1+c) (the scheduler only uses
          \* Jdes through the log factor), which makes every rational c < 1 available: the log-spaced regime needs 1/c > bmin
          /\ IF J = 0 THEN RLt(c, <<1, 1>>) ELSE (~RLt(c, <<1, 1>>) /\ RPow(RAdd(<<1, 1>>, c), J) = R(n, 2))
          /\ cfg = [N |-> n, olap |-> o, bmin |-> R(b[1], b[2]), Lmin |-> lm, Jdes |-> J, Kdes |-> Kd, c |-> R(c[1], c[2])]
          /\ fi = (b[1] * FDen) \div b[2]
    /\ pc = "resolve" /\ L = 0 /\ K = 0 /\ bins = <<>> /\ placed = <<>> /\ kmemo = <<>>

Resolve ==
    /\ pc = "resolve"
    /\ 2 * fi < N * FDen                                          \* while fi < fmax
    /\ \E reg \in Regimes : \E cl \in ClampChoices(reg) : \E l0 \in L0Choices(reg, cl) :
          L' = l0
    /\ pc' = "clamp"
    /\ UNCHANGED <<cfg, fi, K, bins, placed, kmemo>>

Clamp ==
    /\ pc = "clamp"
    /\ L' = LET a == IF L > N THEN N ELSE L IN IF a < cfg.Lmin THEN cfg.Lmin ELSE a
    /\ pc' = "count"
    /\ UNCHANGED <<cfg, fi, K, bins, placed, kmemo>>

(* l.200-202.  nseg is a nearest integer to the ideal count (both at an exact tie: the property   *)
(* only asks for "nearest", but the count is a function of (N, L, olap): the choice made for a      *)
(* length is remembered in kmemo and reused); a single segment uses the whole record; the repaired  *)
(* scheduler caps the count at the N-L+1 distinct positions.                                        *)
Count ==
    /\ pc = "count"
    /\ \E k \in (IF L \in DOMAIN kmemo THEN {kmemo[L]} ELSE Seg!KChoicesUncapped(N, L, Xov)) :
          LET len == IF k = 1 THEN N ELSE L IN
          /\ L' = len
          /\ K' = IF CapK THEN Min(k, Seg!Cap(N, len)) ELSE k
          /\ kmemo' = IF L \in DOMAIN kmemo THEN kmemo ELSE (L :> k) @@ kmemo
    /\ pc' = "emit"
    /\ UNCHANGED <<cfg, fi, bins, placed>>

Emit ==
    /\ pc = "emit"
    /\ bins' = Append(bins, [f |-> fi, L |-> L, K |-> K])
    /\ fi' = fi + (N * FDen) \div L
    /\ (N * FDen) % L = 0                                         \* FDen is a common denominator
    /\ pc' = "resolve"
    /\ UNCHANGED <<cfg, L, K, placed, kmemo>>

LoopExit ==
    /\ pc = "resolve"
    /\ 2 * fi >= N * FDen
    /\ pc' = "place"
    /\ UNCHANGED <<cfg, fi, L, K, bins, placed, kmemo>>

(* l.218-236: navg (the same count, recomputed from the final L) and the start vector of the next bin *)
Place ==
    /\ pc = "place"
    /\ Len(placed) < Len(bins)
    /\ LET b == bins[Len(placed) + 1]  k == b.K IN
          placed' = Append(placed, [f |-> b.f, L |-> b.L, K |-> k, navg |-> k,
                                    D |-> IF k = 1 THEN <<0>>
                                          ELSE IF (N - b.L) < (k - 1)            \* shift < 1 => shift = 1.0 (original code)
                                               THEN [i \in 1..k |-> i - 1]
                                               ELSE Seg!Placement(k, N, b.L)])
    /\ UNCHANGED <<cfg, pc, fi, L, K, bins, kmemo>>

Finish ==
    /\ pc = "place" /\ Len(placed) = Len(bins)
    /\ pc' = "done"
    /\ UNCHANGED <<cfg, fi, L, K, bins, placed, kmemo>>

Next == Resolve \/ Clamp \/ Count \/ Emit \/ LoopExit \/ Place \/ Finish
Spec == Init /\ [][Next]_vars
(* the scheduler loop terminates: every fair behaviour reaches "done" (fi grows by fs/L >= fs/N per bin) *)
FairSpec == Spec /\ WF_vars(Next)
Terminates == <>(pc = "done")

(***************************************************************************)
(* Invariants: the clauses of C02, C03, C04 on every stored bin            *)
(***************************************************************************)
TypeOK == pc \in {"resolve", "clamp", "count", "emit", "place", "done"}

(* C03 *)
GridStartsAtBmin   == Len(bins) >= 1 => R(bins[1].f, FDen) = Bmin
GridStepsByRes     == \A j \in 1..(Len(bins) - 1) : bins[j + 1].f = bins[j].f + (N * FDen) \div bins[j].L
GridBelowNyquist   == \A j \in 1..Len(bins) : 2 * bins[j].f < N * FDen
GridIncreasing     == \A j \in 1..(Len(bins) - 1) : bins[j].f < bins[j + 1].f
(* bin number b = f*L/fs never undershoots bmin by more than the rounding of L: f*(L+1/2)/N >= bmin *)
BinNumberFloor     == \A j \in 1..Len(bins) :
                         RLe(Bmin, RDiv(RMul(R(bins[j].f, FDen), R(2 * bins[j].L + 1, 2)), RInt(N)))
AtLeastOneBin      == pc \in {"place", "done"} => Len(bins) >= 1
(* C02 (length clauses) *)
LengthBounds       == \A j \in 1..Len(bins) : Max(1, cfg.Lmin) <= bins[j].L /\ bins[j].L <= N
SingleUsesRecord   == \A j \in 1..Len(bins) : bins[j].K = 1 => bins[j].L = N
(* C04 monotonicity *)
LengthNonIncreasing == \A j \in 1..(Len(bins) - 1) : bins[j].L >= bins[j + 1].L
(* C02/C04 segmentation clauses of the placed bins *)
PlacedOk == \A j \in 1..Len(placed) :
               LET p == placed[j] IN
               /\ p.navg >= 1 /\ p.navg = Len(p.D) /\ p.K = p.navg
               /\ Seg!KOk(p.navg, N, p.L, Xov)
               /\ Seg!StartsOk(p.D, p.navg, N, p.L)
AveragesNonDecreasing == \A j \in 1..(Len(placed) - 1) : placed[j].navg <= placed[j + 1].navg
(* C04 log spacing: in regime A with no clamp active the length is a nearest integer to fs/(f*c)   *)
(* and, up to that rounding, at least Kdes averages are taken.                                      *)
Unclamped(j) ==
    LET f == R(bins[j].f, FDen) IN
    /\ RLt(FL, RMul(f, C))                                 \* strictly inside regime A
    /\ RLt(Bmin, RInv(C))                                  \* bmin clamp inactive (bin number 1/c > bmin)
    /\ bins[j].L > cfg.Lmin /\ bins[j].L < N /\ bins[j].K > 1
LogSpaced == \A j \in 1..Len(bins) :
    Unclamped(j) =>
        LET f == R(bins[j].f, FDen)  x == RDiv(RInt(N), RMul(f, C)) IN
        /\ Nearest(bins[j].L, x[1], x[2])
        /\ \* Ideal(N, L - 1/2) >= Kdes - 1/2
           LET l2 == 2 * bins[j].L - 1 IN
           RLe(R(2 * cfg.Kdes - 1, 2), RAdd(<<1, 1>>, RDiv(R(2 * N - l2, l2), Xov)))

(* emission for replay: one JSON line per finished plan *)
PlanJson == [cfg |-> [N |-> N, olap |-> cfg.olap, bmin |-> cfg.bmin, Lmin |-> cfg.Lmin, Jdes |-> cfg.Jdes, Kdes |-> cfg.Kdes, c |-> cfg.c],
             fden |-> FDen,
             f |-> [j \in 1..Len(placed) |-> placed[j].f],
             L |-> [j \in 1..Len(placed) |-> placed[j].L],
             K |-> [j \in 1..Len(placed) |-> placed[j].K],
             navg |-> [j \in 1..Len(placed) |-> placed[j].navg],
             unclamped |-> Cardinality({j \in 1..Len(bins) : Unclamped(j)})]      \* bins on which LogSpaced asserts something
EmitPlan == (pc = "done" /\ EmitPlans) => PrintT(ToJson(PlanJson))
=============================================================================
