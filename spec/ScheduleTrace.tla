----------------------------- MODULE ScheduleTrace -----------------------------
(***************************************************************************)
(* Trace specification for real parallel runs (C14).  One trace = one      *)
(* kernel (or the full analysis) executed under a sequence of              *)
(* (threads, chunk size) configurations, several repetitions each.         *)
(*   ev = [thr, chunk, dig, ndig]                                          *)
(*     dig   index of the result's digest in order of first appearance     *)
(*           over the whole trace (1 = the first configuration's result)   *)
(*     ndig  number of distinct digests among the repetitions of this      *)
(*           configuration                                                 *)
(* The first event is the single-thread run.  As in Prange.tla, the        *)
(* reduction input must be the same function of the data for every         *)
(* schedule: every run reproduces the first digest bit for bit.            *)
(***************************************************************************)
EXTENDS Integers, Sequences, TLC, Json, IOUtils
Traces == JsonDeserialize(IOEnv.TRACE_FILE)
VARIABLES tid, l
vars == <<tid, l>>
Check(name, c) == IF c THEN TRUE ELSE PrintT(<<"FAIL", tid, l, name>>)
T  == Traces[tid]
Ev == T.ev[l]
Init == tid \in 1..Len(Traces) /\ l = 1
Step ==
    /\ l <= Len(T.ev)
    /\ Check("C14:first_run_is_single_threaded", l > 1 \/ Ev.thr = 1)
    /\ Check("C14:repetitions_agree_bitwise", Ev.ndig = 1)
    /\ Check("C14:result_independent_of_threads_and_chunking", Ev.dig = 1)
    /\ l' = l + 1 /\ UNCHANGED tid
Next == Step
Spec == Init /\ [][Next]_vars
Done == (l = Len(T.ev) + 1) => PrintT(<<"OK", tid>>)
=============================================================================
