---------------------------- MODULE PlanValidate ----------------------------
(***************************************************************************)
(* speckit/analysis.py, SpectrumAnalyzer.plan(): validation of what a      *)
(* scheduler returns (analysis.py:436-500).  This is the gate in front of  *)
(* the Numba kernels, which index the record without bounds checks: a plan *)
(* that passes must be safe to run.                                        *)
(*                                                                         *)
(* A custom scheduler callable returns a two-bin plan for a record of N    *)
(* samples with exactly one defect (or none):                              *)
(*   missing_<key>      one of the eight required keys is absent           *)
(*   short_<key>        a per-bin vector is one entry short                *)
(*   D_not_a_list       D is a 2-D array instead of a list of vectors      *)
(*   D_short            D has one vector less than there are bins          *)
(*   D_elem_2d          one start vector is two-dimensional                *)
(*   L_zero, L_below_Lmin, L_gt_N                                          *)
(*   D_empty            a bin without segments                             *)
(*   start_negative, start_past_end    (past end: start = N - L + 1)       *)
(*   K_mismatch         K differs from the number of starts                *)
(* The outcome is "error" (ValueError) or "ok"; every case is replayed     *)
(* through SpectrumAnalyzer(scheduler=<callable>).plan() (./check EXTRA).  *)
(***************************************************************************)
EXTENDS Integers, Sequences, FiniteSets, TLC, Json

CONSTANTS N, EmitCases
VARIABLES c
vars == <<c>>

Keys == {"f", "r", "b", "L", "K", "navg", "D", "O"}
Vectors == {"f", "r", "b", "L", "K", "navg", "O"}
Defects == {"none"} \cup {"missing_" \o k : k \in Keys} \cup {"short_" \o k : k \in Vectors}
           \cup {"D_not_a_list", "D_short", "D_elem_2d", "L_zero", "L_below_Lmin", "L_gt_N", "D_empty",
                 "start_negative", "start_past_end", "K_mismatch"}

Init == \E d \in Defects : \E lmin \in {1, 3} : \E which \in {1, 2} : c = [defect |-> d, Lmin |-> lmin, bin |-> which]
Next == UNCHANGED c
Spec == Init /\ [][Next]_vars

(* the well-formed plan *)
Base == << [L |-> 4, D |-> <<0, N - 4>>, K |-> 2], [L |-> 3, D |-> <<0, 2, N - 3>>, K |-> 3] >>

(* the plan as the analyzer sees it, after the defect is applied to bin c.bin (per-bin defects) *)
Bins ==
    [p \in 1..2 |->
        IF p # c.bin THEN Base[p]
        ELSE CASE c.defect = "L_zero"          -> [Base[p] EXCEPT !.L = 0]
               [] c.defect = "L_below_Lmin"    -> [L |-> 2, D |-> <<0, 1>>, K |-> 2]            \* a valid bin of length 2
               [] c.defect = "L_gt_N"          -> [Base[p] EXCEPT !.L = N + 1]
               [] c.defect = "D_empty"         -> [Base[p] EXCEPT !.D = <<>>, !.K = 0]
               [] c.defect = "start_negative"  -> [Base[p] EXCEPT !.D = <<-1>> \o Tail(Base[p].D)]
               [] c.defect = "start_past_end"  -> [Base[p] EXCEPT !.D = <<0, N - Base[p].L + 1>>, !.K = 2]
               [] c.defect = "K_mismatch"      -> [Base[p] EXCEPT !.K = Base[p].K + 1]
               [] OTHER                        -> Base[p]]

Structural == c.defect \in ({"missing_" \o k : k \in Keys} \cup {"short_" \o k : k \in Vectors} \cup {"D_not_a_list", "D_short", "D_elem_2d"})

BinOk(b) == /\ b.L >= 1 /\ b.L >= c.Lmin
            /\ Len(b.D) >= 1
            /\ \A q \in 1..Len(b.D) : b.D[q] >= 0 /\ b.D[q] <= N - b.L
            /\ b.K = Len(b.D)
Outcome == IF Structural THEN "error" ELSE IF \A p \in 1..2 : BinOk(Bins[p]) THEN "ok" ELSE "error"

(* the gate: whatever passes can be handed to kernels that do not check bounds *)
SafeToRun == Outcome = "ok" => \A p \in 1..2 : \A q \in 1..Len(Bins[p].D) : Bins[p].D[q] >= 0 /\ Bins[p].D[q] + Bins[p].L <= N
EveryDefectRejected == (c.defect # "none" /\ ~(c.defect = "L_below_Lmin" /\ c.Lmin = 1)) => Outcome = "error"
CleanPlanAccepted == c.defect = "none" => Outcome = "ok"

Emit == EmitCases => PrintT(ToJson([cfg |-> c, bins |-> Bins, outcome |-> Outcome]))
=============================================================================
