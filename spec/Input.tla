-------------------------------- MODULE Input --------------------------------
(***************************************************************************)
(* speckit/analysis.py:203-246 - how SpectrumAnalyzer takes ownership of   *)
(* the caller's samples: layout normalisation, dtype conversion,           *)
(* contiguity, sanitising of non-finite samples.                           *)
(*                                                                         *)
(* The caller's object is abstracted to                                    *)
(*   layout  "1d" | "2xN" | "Nx2" | "list" | "tuple"                       *)
(*   dtype   "f64" | "f32" | "i64" | "f128" | "obj"                         *)
(*           (i64 cannot hold non-finite; obj marks a gap with None)       *)
(*   mem     "C" | "F" | "strided" | "negstride"                           *)
(*   bad     set of <<channel, position>> holding a non-finite sample      *)
(*   kind    "nan" | "posinf" | "neginf" | "huge" (finite long double      *)
(*           beyond the float64 range: non-finite only after conversion)   *)
(* Buffers are modelled by identity: `abuf` is either the caller's buffer  *)
(* ("caller") or a fresh one ("own").  np.ascontiguousarray returns the    *)
(* caller's buffer itself exactly when it is already a C-contiguous        *)
(* float64 ndarray in the wanted orientation - the aliasing hazard.        *)
(*   AsArray          np.asarray(data)                                     *)
(*   Orient           pick the (2, N) orientation (transpose = a view)     *)
(*   MakeContiguous   np.ascontiguousarray(..., float64): alias or copy    *)
(*   Sanitise         replace non-finite samples by 0, in place or copying *)
(***************************************************************************)
EXTENDS Integers, FiniteSets, Sequences, TLC, Json

CONSTANTS SanitiseInPlace,   \* TRUE: np.nan_to_num(copy=False) (original code); FALSE: sanitise into a new buffer
          NLen, EmitCases

VARIABLES inp, pc, view, abuf, callerBad, analyzerBad
vars == <<inp, pc, view, abuf, callerBad, analyzerBad>>

Layouts == {"1d", "2xN", "Nx2", "list", "tuple"}
Dtypes  == {"f64", "f32", "i64", "f128", "obj"}      \* f128: np.longdouble; obj: object arrays / lists whose gaps are None
Mems    == {"C", "F", "strided", "negstride"}
Kinds   == {"nan", "posinf", "neginf", "huge"}       \* huge: a finite long double beyond the float64 range (non-finite only AFTER the conversion)
Chans(l) == IF l = "1d" THEN {1} ELSE {1, 2}

Init ==
    /\ \E l \in Layouts : \E d \in Dtypes : \E m \in Mems : \E k \in Kinds :
       \E bad \in SUBSET (Chans(l) \X {1, NLen}) :
          /\ Cardinality(bad) <= 2
          /\ (d = "i64" => bad = {})
          /\ (k = "huge" => d = "f128")
          /\ (l \in {"list", "tuple"} => m = "C")              \* a python sequence of two arrays has no strides of its own
          /\ (l = "1d" => m \in {"C", "strided", "negstride"})
          /\ inp = [layout |-> l, dtype |-> d, mem |-> m, kind |-> k, bad |-> bad]
    /\ pc = "asarray" /\ view = "none" /\ abuf = "none" /\ callerBad = inp.bad /\ analyzerBad = {}

(* np.asarray: an ndarray is returned as is; a list/tuple of two arrays is stacked into a NEW (2, N) array *)
AsArray ==
    /\ pc = "asarray"
    /\ view' = IF inp.layout \in {"list", "tuple"} THEN "fresh" ELSE "caller"
    /\ pc' = "orient"
    /\ UNCHANGED <<inp, abuf, callerBad, analyzerBad>>

(* the (2, N) orientation: Nx2 is transposed (a view: C-contiguous Nx2 becomes Fortran-ordered 2xN and vice versa) *)
EffectiveMem == IF inp.layout = "Nx2" THEN (CASE inp.mem = "C" -> "F" [] inp.mem = "F" -> "C" [] OTHER -> inp.mem) ELSE inp.mem
Orient == /\ pc = "orient" /\ pc' = "contig" /\ UNCHANGED <<inp, view, abuf, callerBad, analyzerBad>>

(* the same as pure operators of a scenario record (used by InputTrace.tla) *)
EffectiveMemOf(i) == IF i.layout = "Nx2" THEN (CASE i.mem = "C" -> "F" [] i.mem = "F" -> "C" [] OTHER -> i.mem) ELSE i.mem
AliasesOf(i) == i.layout \notin {"list", "tuple"} /\ i.dtype = "f64" /\ EffectiveMemOf(i) = "C"
Aliases == view = "caller" /\ inp.dtype = "f64" /\ EffectiveMem = "C"
AliasDefinitionsAgree == pc = "contig" => (Aliases <=> AliasesOf(inp))
MakeContiguous ==
    /\ pc = "contig"
    /\ abuf' = IF Aliases THEN "caller" ELSE "own"
    /\ analyzerBad' = inp.bad
    /\ pc' = "sanitise"
    /\ UNCHANGED <<inp, view, callerBad>>

Sanitise ==
    /\ pc = "sanitise"
    /\ IF analyzerBad = {} THEN UNCHANGED <<abuf, callerBad, analyzerBad>>
       ELSE IF SanitiseInPlace
            THEN /\ analyzerBad' = {}
                 /\ callerBad' = IF abuf = "caller" THEN {} ELSE callerBad     \* writing through the alias changes the caller's array
                 /\ UNCHANGED abuf
            ELSE /\ analyzerBad' = {} /\ abuf' = "own" /\ UNCHANGED callerBad
    /\ pc' = "ready"
    /\ UNCHANGED <<inp, view>>

Next == AsArray \/ Orient \/ MakeContiguous \/ Sanitise
Spec == Init /\ [][Next]_vars

(* C13: the caller's array is left untouched ... *)
CallerUntouched == callerBad = inp.bad
(* ... and the analysis runs on the zero-filled record *)
AnalyzerSeesZeroFilled == pc = "ready" => analyzerBad = {}
(* a finite input may legitimately be shared (no write ever happens in this module) *)
SharedOnlyIfNeverWritten == (pc = "ready" /\ abuf = "caller") => inp.bad = {} \/ SanitiseInPlace

Emit == (pc = "ready" /\ EmitCases) => PrintT(ToJson([inp |-> [layout |-> inp.layout, dtype |-> inp.dtype, mem |-> inp.mem, kind |-> inp.kind,
                                                               bad |-> inp.bad], alias |-> (abuf = "caller")]))
=============================================================================
