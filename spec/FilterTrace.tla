------------------------------ MODULE FilterTrace ------------------------------
(***************************************************************************)
(* Contract trace for the 1/f^alpha shaping filter (C18) and structural    *)
(* facts of its coefficient computation.  The recorder evaluates the       *)
(* cascade response from the generator's OWN coefficient arrays and logs,  *)
(* in centi-dB, the error of the two-sided density against f^-alpha:       *)
(*  [nsec, nsecx (ceil(4.5*log10(fmax/fmin))), inter (1 iff the corner     *)
(*   frequencies interleave p_i < z_i < p_{i+1}), b0 (1 iff b0 = 1),       *)
(*   ein (max |error| on [4 fmin_eff, fmax_eff/4]), eall (max |error| up   *)
(*   to the corners), e1 (|error| at 1 Hz, -1 if 1 Hz is not interior),    *)
(*   wide (1 iff the interior interval is non-empty), qvar (white noise    *)
(*   rms^2 over psd*fs in Q 2^20)]                                         *)
(***************************************************************************)
EXTENDS Exact, Json, IOUtils
Traces == JsonDeserialize(IOEnv.TRACE_FILE)
VARIABLES tid, l
vars == <<tid, l>>
Check(name, c) == IF c THEN TRUE ELSE PrintT(<<"FAIL", tid, l, name>>)   \* report and go on: every clause of every event is evaluated
T  == Traces[tid]
Ev == T.ev[l]
Init == tid \in 1..Len(Traces) /\ l = 1
Step ==
    /\ l <= Len(T.ev)
    /\ Check("C18:number_of_sections", Ev.nsec = Ev.nsecx /\ Ev.nsec >= 1)
    /\ Check("C18:corners_interleave", Ev.inter = 1)
    /\ Check("C18:unit_leading_denominator", Ev.b0 = 1)
    /\ Check("C18:density_is_f_to_minus_alpha_between_corners", Ev.wide = 0 \/ Ev.ein <= 150)
    /\ Check("C18:density_within_3p5_dB_up_to_corners", Ev.eall <= 350)
    /\ Check("C18:unit_density_at_1_Hz", Ev.e1 = -1 \/ Ev.e1 <= 150)
    /\ Check("C18:white_noise_variance_is_psd_times_fs", Within(Ev.qvar, 1048576, 2))
    /\ l' = l + 1 /\ UNCHANGED tid
Next == Step
Spec == Init /\ [][Next]_vars
Done == (l = Len(T.ev) + 1) => PrintT(<<"OK", tid>>)
=============================================================================
