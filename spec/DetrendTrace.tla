----------------------------- MODULE DetrendTrace -----------------------------
(***************************************************************************)
(* Metamorphic trace specification for segment detrending (C08) on real    *)
(* analyses at scale.  One trace = one record analysed with every detrend  *)
(* order in one process; one event per (order p, trend degree d, channel): *)
(* the recorder adds amp*(t/N)^d to the channel(s), repeats the analysis   *)
(* and logs the largest change of XX, YY, |XY| and sqrt(M2), divided by    *)
(* amp^2*S12 (coherent-sum bound), in Q 2^30:                              *)
(*    all   the maximum over every bin                                     *)
(*    low   the maximum over the three lowest bins                         *)
(* Clauses: a trend of degree <= p changes nothing (2 quanta, i.e. 2e-9 of *)
(* the added trend's own size); a trend of degree p+1 does change the      *)
(* estimate (>= 1000 quanta in the lowest bins; measured >= 3e4); p = -1 is the raw segment  *)
(* (a constant already changes it).                                        *)
(***************************************************************************)
EXTENDS Exact, Json, IOUtils
Traces == JsonDeserialize(IOEnv.TRACE_FILE)
VARIABLES tid, l
vars == <<tid, l>>
Check(name, c) == IF c THEN TRUE ELSE PrintT(<<"FAIL", tid, l, name>>)   \* report and go on: every clause of every event is evaluated
T  == Traces[tid]
Ev == T.ev[l]
Init == tid \in 1..Len(Traces) /\ l = 1
Step ==
    /\ l <= Len(T.ev)
    /\ LET e == Ev IN
       /\ Check("C08:trend_of_degree_le_order_leaves_estimate_unchanged", e.d > e.p \/ e.all <= 2)
       \* (sensitivity is asserted on scheduler plans, whose lowest bins use long segments; minL < 0 marks a user plan of short segments)
       /\ Check("C08:trend_of_degree_order_plus_one_changes_estimate", e.d # e.p + 1 \/ e.minL < 0 \/ e.low >= 1000)
       /\ Check("C08:order_minus_one_is_the_raw_windowed_segment", e.p # -1 \/ e.d # 0 \/ e.minL < 0 \/ e.low >= 1000)
    /\ l' = l + 1 /\ UNCHANGED tid
Next == Step
Spec == Init /\ [][Next]_vars
Done == (l = Len(T.ev) + 1) => PrintT(<<"OK", tid>>)
=============================================================================
