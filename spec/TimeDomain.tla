------------------------------ MODULE TimeDomain ------------------------------
(***************************************************************************)
(* speckit/dsp.py: polynomial_detrend (exact least squares through the     *)
(* Gram polynomials of KernelOps.tla), crop_data + integral_rms (trapezoid *)
(* integral of ASD^2 over the grid points inside the band) and             *)
(* SpectrumResult.get_rms.                                                 *)
(***************************************************************************)
EXTENDS KernelOps, Json
CONSTANTS Part,      \* "detrend" | "rms"
          EmitCases
VARIABLES c
vars == <<c>>

(* ---------------- detrending ---------------- *)
SeriesSet == {<<3, -1, 4, 1, -5, 9, 2>>, <<0, 1, 4, 9, 16, 25, 36>>, <<2, 2, 2, 2, 2, 2, 2>>, <<1, 3, 5, 7, 9, 11, 13>>, <<0, 0, 1, 0, 0, -2, 0>>}
EffOrder(p, n) == IF n < p + 1 THEN n - 1 ELSE p            \* order > n-1 falls back to n-1
Res(x, p) == Residual(x, EffOrder(p, Len(x)), Len(x))       \* Scale * (x - fit)
Sc(x, p)  == Scale(EffOrder(p, Len(x)), Len(x))
Pow(b, e) == IF e = 0 THEN 1 ELSE IF e = 1 THEN b ELSE b * b

DetrendInit == \E s \in SeriesSet : \E n \in 1..7 : \E p \in 0..2 : c = [x |-> [i \in 1..n |-> s[i]], p |-> p]
OrthogonalToPolynomials ==
    Part = "detrend" => \A k \in 0..EffOrder(c.p, Len(c.x)) : Dot(Res(c.x, c.p), [i \in 1..Len(c.x) |-> Pow(i - 1, k)]) = 0
PolynomialGoesToZero ==
    Part = "detrend" => \A k \in 0..EffOrder(c.p, Len(c.x)) :
        LET poly == [i \in 1..Len(c.x) |-> 2 * Pow(i - 1, k) - 1] IN Res(poly, c.p) = [i \in 1..Len(c.x) |-> 0]
Idempotent ==
    Part = "detrend" => Res(Res(c.x, c.p), c.p) = [i \in 1..Len(c.x) |-> Sc(c.x, c.p) * Res(c.x, c.p)[i]]

(* ---------------- band RMS ---------------- *)
Grids == {<<1, 2, 4, 7, 8>>, <<2, 3, 5>>, <<1, 4>>, <<3>>, <<1, 2, 3, 4, 5, 6>>,
          <<1, 2, 4, 4, 7>>, <<2, 2, 5>>}        \* a frequency listed twice with different ASD (two spectra stitched at a junction): a zero-width trapezoid
Asd2(n) == [i \in 1..n |-> ((i * 7) % 5) + 1]                   \* integer ASD^2 values
(* twice the trapezoid integral of v over the grid points of f inside [lo2/2, hi2/2] (band ends in half units) *)
Inside(f, lo2, hi2) == {i \in 1..Len(f) : 2 * f[i] >= lo2 /\ 2 * f[i] <= hi2}
RECURSIVE Trap2(_, _, _)
Trap2(f, v, S) ==      \* sum over consecutive members of S (S is an interval of indices)
    IF Cardinality(S) <= 1 THEN 0
    ELSE LET i == CHOOSE i \in S : \A j \in S : i <= j IN (f[i + 1] - f[i]) * (v[i] + v[i + 1]) + Trap2(f, v, S \ {i})
(* integral_rms: band clipped to the grid's span; no valid range (min >= max) or no point -> 0 *)
Rms2x2(f, v, lo2, hi2) ==
    LET a == Max(2 * f[1], lo2)  b == Min(2 * f[Len(f)], hi2) IN
    IF a >= b THEN 0 ELSE Trap2(f, v, Inside(f, a, b))
Asd2z(n) == [i \in 1..n |-> (i * 3) % 4]                        \* a spectrum with exact zeros (notches, band-limited data): zeros are grid points too
RmsInit == \E f \in Grids : \E lo2 \in 0..18 : \E hi2 \in 0..18 : \E v \in {Asd2(Len(f)), Asd2z(Len(f))} :
              lo2 <= hi2 /\ c = [f |-> f, v |-> v, lo2 |-> lo2, hi2 |-> hi2]

Additive ==       \* adjacent bands split at a grid point add up in power
    Part = "rms" => \A m \in 1..Len(c.f) :
        (c.lo2 <= 2 * c.f[m] /\ 2 * c.f[m] <= c.hi2) =>
            Rms2x2(c.f, c.v, c.lo2, 2 * c.f[m]) + Rms2x2(c.f, c.v, 2 * c.f[m], c.hi2) = Rms2x2(c.f, c.v, c.lo2, c.hi2)
MonotoneUnderNesting ==
    Part = "rms" => \A a \in c.lo2..c.hi2 : \A b \in a..c.hi2 : Rms2x2(c.f, c.v, a, b) <= Rms2x2(c.f, c.v, c.lo2, c.hi2)
NonNegative == Part = "rms" => Rms2x2(c.f, c.v, c.lo2, c.hi2) >= 0

Init == IF Part = "detrend" THEN DetrendInit ELSE RmsInit
Next == UNCHANGED c
Spec == Init /\ [][Next]_vars
Emit == EmitCases =>
    PrintT(ToJson(IF Part = "detrend" THEN [x |-> c.x, p |-> c.p, scale |-> Sc(c.x, c.p), res |-> Res(c.x, c.p)]
                  ELSE [f |-> c.f, v |-> c.v, lo2 |-> c.lo2, hi2 |-> c.hi2, rms2x2 |-> Rms2x2(c.f, c.v, c.lo2, c.hi2)]))
=============================================================================
