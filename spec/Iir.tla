--------------------------------- MODULE Iir ---------------------------------
(***************************************************************************)
(* speckit/noise.py:_numba_lfilter_cascade - the colouring filter as a     *)
(* cascade of first-order sections in exact rational arithmetic (dyadic    *)
(* coefficients, integer input), for every split point of the input.       *)
(***************************************************************************)
EXTENDS Exact, Json
CONSTANTS MaxLen, EmitCases
VARIABLES c
(***************************************************************************)
(* Exact first-order cascade:  y = a0*x + z ;  z' = a1*x - b1*y            *)
(* sections = sequence of [a0, a1, b1] (rationals), state = sequence of z  *)
(***************************************************************************)
SecStep(sec, z, x) == LET y == RAdd(RMul(sec.a0, x), z) IN <<y, RSub(RMul(sec.a1, x), RMul(sec.b1, y))>>
RECURSIVE SecRun(_, _, _, _)
SecRun(sec, z, xs, k) ==      \* <<outputs (k first samples), final z>>
    IF k = 0 THEN <<<<>>, z>>
    ELSE LET p == SecRun(sec, z, xs, k - 1)  s == SecStep(sec, p[2], xs[k]) IN <<Append(p[1], s[1]), s[2]>>
RECURSIVE Cascade(_, _, _, _)
Cascade(secs, zs, xs, i) ==   \* sections i..Len(secs) applied in order; returns <<outputs, final states>>
    IF i > Len(secs) THEN <<xs, zs>>
    ELSE LET r == SecRun(secs[i], zs[i], xs, Len(xs))
             rest == Cascade(secs, [zs EXCEPT ![i] = r[2]], r[1], i + 1)
         IN rest
CascadeRun(secs, zs, xs) == Cascade(secs, zs, xs, 1)
SplitInvariant(secs, zs, xs, k) ==
    LET whole == CascadeRun(secs, zs, xs)
        a == CascadeRun(secs, zs, SubSeq(xs, 1, k))
        b == CascadeRun(secs, a[2], SubSeq(xs, k + 1, Len(xs)))
    IN whole[1] = a[1] \o b[1] /\ whole[2] = b[2]

H == <<1, 2>>
Q4 == <<1, 4>>
SecSet == {[a0 |-> <<1, 1>>, a1 |-> <<-1, 2>>, b1 |-> <<-1, 2>>],
           [a0 |-> <<3, 2>>, a1 |-> <<-1, 1>>, b1 |-> <<-3, 4>>],
           [a0 |-> <<5, 4>>, a1 |-> <<-3, 4>>, b1 |-> <<1, 2>>]}
Inputs(n) == [1..n -> {-1, 0, 2}]
Init == \E n \in 1..MaxLen : \E xs \in Inputs(n) : \E k \in 0..n : \E s1 \in SecSet : \E s2 \in SecSet \cup {[a0 |-> <<0, 1>>, a1 |-> <<0, 1>>, b1 |-> <<0, 1>>]} :
           \E z0 \in {<<0, 1>>, <<1, 2>>} :
           LET secs == IF s2.a0 = <<0, 1>> THEN <<s1>> ELSE <<s1, s2>>
               zs == [i \in 1..Len(secs) |-> IF i = 1 THEN z0 ELSE <<-1, 4>>]
           IN c = [secs |-> secs, zs |-> zs, xs |-> [i \in 1..n |-> <<xs[i], 1>>], k |-> k]
Next == UNCHANGED c
Spec == Init /\ [][Next]_c
SplitHolds == SplitInvariant(c.secs, c.zs, c.xs, c.k)
Emit == EmitCases => PrintT(ToJson([secs |-> c.secs, zs |-> c.zs, xs |-> c.xs, k |-> c.k,
                                    out |-> CascadeRun(c.secs, c.zs, c.xs)[1], zf |-> CascadeRun(c.secs, c.zs, c.xs)[2]]))
=============================================================================
