---------------------------- MODULE SegPlacementNoCap ----------------------------
(***************************************************************************)
(* Non-vacuity twin of SegPlacement.tla: cap relaxed by one - must FAIL.     *)
(* with K <= N-L+1 segments of length L in a record of N samples, the      *)
(* start indices  D(i) = round_half_up(i*(N-L)/(K-1))  are strictly        *)
(* increasing, begin at 0 and end at N-L.  TLC checks the same statement   *)
(* exhaustively for N <= 128 (Segmentation.tla); here N, L, K, i are       *)
(* symbolic.  Checked with                                                 *)
(*   apalache-mc check --length=0 --inv=Lemma SegPlacement.tla             *)
(***************************************************************************)
EXTENDS Integers
VARIABLES
    \* @type: Int;
    n,
    \* @type: Int;
    l,
    \* @type: Int;
    k,
    \* @type: Int;
    i
D(j) == (2 * j * (n - l) + (k - 1)) \div (2 * (k - 1))
Init == /\ n \in Int /\ l \in Int /\ k \in Int /\ i \in Int
        /\ l >= 1 /\ n >= l /\ k >= 2 /\ k <= n - l + 2
        /\ i >= 0 /\ i <= k - 2
Next == UNCHANGED <<n, l, k, i>>
Lemma == /\ D(i + 1) > D(i)
         /\ D(0) = 0
         /\ D(k - 1) = n - l
         /\ D(i) >= 0 /\ D(i + 1) + l <= n
=============================================================================
