------------------------------ MODULE DfWrapper ------------------------------
(***************************************************************************)
(* speckit/dsp.py: df_timeshift and df_detrend as case tables: which       *)
(* columns are transformed, how the new columns are named, what stays      *)
(* untouched, how many rows remain, when an error is raised.               *)
(* The frame has columns a (float), b (integer), s (strings).              *)
(***************************************************************************)
EXTENDS Integers, Sequences, FiniteSets, TLC, Json
CONSTANTS NRows, EmitCases
VARIABLES c
Cols == {"a", "b", "s"}
Numeric == {"a", "b"}
Selections == {"none", "a", "ab", "as", "zz"}
Selected(sel) == CASE sel = "none" -> Cols [] sel = "a" -> {"a"} [] sel = "ab" -> {"a", "b"} [] sel = "as" -> {"a", "s"} [] sel = "zz" -> {"a", "zz"}
Init == \E fn \in {"timeshift", "detrend"} : \E sel \in Selections : \E inplace \in BOOLEAN : \E trunc \in {"none", "true", "two", "huge"} :
        \E zero \in BOOLEAN : \E samp \in {1, 3} :
           /\ (fn = "detrend" => trunc = "none" /\ ~zero /\ samp = 1)
           /\ c = [fn |-> fn, sel |-> sel, inplace |-> inplace, trunc |-> trunc, zero |-> zero, samples2 |-> samp]   \* shift = samples2/2 samples
Next == UNCHANGED c
Spec == Init /\ [][Next]_<<c>>

Missing == Selected(c.sel) \ Cols # {}
Transformed == Selected(c.sel) \cap Numeric
Suffix == IF c.fn = "timeshift" THEN "_shifted" ELSE "_detrended"
(* rows removed from EACH end by truncate *)
NTrunc == CASE c.trunc = "none" -> 0 [] c.trunc = "true" -> c.samples2 [] c.trunc = "two" -> 2 [] c.trunc = "huge" -> NRows   \* int(2*|samples|) = samples2
Rows == IF NTrunc = 0 THEN NRows ELSE IF 2 * NTrunc >= NRows THEN 0 ELSE NRows - 2 * NTrunc
Outcome ==
    IF c.fn = "timeshift" /\ c.zero THEN [kind |-> "same_object"]
    ELSE IF Missing THEN [kind |-> "error"]
    ELSE [kind |-> "frame", transformed |-> Transformed, inplace |-> c.inplace, suffix |-> Suffix,
          newcols |-> IF c.inplace THEN {} ELSE Transformed, rows |-> Rows, ntrunc |-> NTrunc]
(* selected columns only: nothing outside the selection, and no non-numeric column, is ever transformed *)
OnlySelectedNumeric == Outcome.kind = "frame" => Outcome.transformed \subseteq (Selected(c.sel) \cap Numeric)
Emit == EmitCases => PrintT(ToJson([cfg |-> c, outcome |-> Outcome]))
=============================================================================
