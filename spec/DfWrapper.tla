------------------------------ MODULE DfWrapper ------------------------------
(***************************************************************************)
(* speckit/dsp.py: df_timeshift and df_detrend as case tables: which       *)
(* columns are transformed, how the new columns are named, what stays      *)
(* untouched, how many rows remain, when an error is raised.               *)
(* The frame has columns a (float), b (integer), s (strings).              *)
(***************************************************************************)
EXTENDS Integers, Sequences, FiniteSets, TLC, Json
CONSTANTS NRows, EmitCases
VARIABLES c
Cols == {"a", "b", "s"}
Numeric == {"a", "b"}
Selections == {"none", "a", "ab", "as", "zz", "aa"}            \* "aa": the same column listed twice
Selected(sel) == CASE sel = "none" -> Cols [] sel = "a" -> {"a"} [] sel = "ab" -> {"a", "b"} [] sel = "as" -> {"a", "s"} [] sel = "zz" -> {"a", "zz"}
                   [] sel = "aa" -> {"a"}
Init == \E fn \in {"timeshift", "detrend"} : \E sel \in Selections : \E inplace \in BOOLEAN : \E trunc \in {"none", "true", "two", "huge"} :
        \E zero \in BOOLEAN : \E samp \in {1, 3} : \E chain \in BOOLEAN :
           /\ (fn = "detrend" => trunc = "none" /\ ~zero /\ samp = 1)
           /\ (chain => ~zero /\ trunc = "none" /\ sel # "zz")
           /\ c = [fn |-> fn, sel |-> sel, inplace |-> inplace, trunc |-> trunc, zero |-> zero, samples2 |-> samp,   \* shift = samples2/2 samples
                   chain |-> chain]     \* a second call, on the first call's result: every numeric column, one sample, not in place
Next == UNCHANGED c
Spec == Init /\ [][Next]_<<c>>

Suffix == IF c.fn = "timeshift" THEN "_shifted" ELSE "_detrended"
Missing == Selected(c.sel) \ Cols # {}
Transformed == Selected(c.sel) \cap Numeric
(* rows removed from EACH end by truncate *)
NTrunc == CASE c.trunc = "none" -> 0 [] c.trunc = "true" -> c.samples2 [] c.trunc = "two" -> 2 [] c.trunc = "huge" -> NRows   \* int(2*|samples|) = samples2
Rows == IF NTrunc = 0 THEN NRows ELSE IF 2 * NTrunc >= NRows THEN 0 ELSE NRows - 2 * NTrunc
Outcome ==
    IF c.fn = "timeshift" /\ c.zero THEN [kind |-> "same_object"]
    ELSE IF Missing THEN [kind |-> "error"]
    ELSE [kind |-> "frame", transformed |-> Transformed, inplace |-> c.inplace, suffix |-> Suffix,
          newcols |-> IF c.inplace THEN {} ELSE Transformed, rows |-> Rows, ntrunc |-> NTrunc]
(***************************************************************************)
(* Sequences of calls: a frame is a function from the names of its numeric *)
(* columns to their provenance <<root column, shifts applied so far>> (in  *)
(* half samples; for df_detrend: the detrend orders applied so far - the   *)
(* chained call uses order 0 after order 1, which is not idempotent).      *)
(* One call reads every selected column FROM ITS INPUT     *)
(* FRAME and writes the shifted copy under the target name - a target that *)
(* already exists (a_shifted from an earlier call) is overwritten, and is  *)
(* itself shifted from its OLD contents into a_shifted_shifted.            *)
(***************************************************************************)
Frame0 == [n \in Numeric |-> <<n, <<>> >>]
Target(n, inplace) == IF inplace THEN n ELSE n \o Suffix
ApplyShift(fr, sel, inplace, s2) ==            \* sel: a set of column names (non-numeric and unknown ones are ignored here)
    LET T == sel \cap DOMAIN fr
        targets == {Target(t, inplace) : t \in T}
        src(n) == CHOOSE t \in T : Target(t, inplace) = n
    IN [n \in DOMAIN fr \cup targets |-> IF n \in targets THEN <<fr[src(n)][1], Append(fr[src(n)][2], s2)>> ELSE fr[n]]
FirstOp  == IF c.fn = "timeshift" THEN c.samples2 ELSE 1          \* half samples / detrend order
SecondOp == IF c.fn = "timeshift" THEN 2 ELSE 0
AfterFirst == ApplyShift(Frame0, Selected(c.sel), c.inplace, FirstOp)
AfterChain == ApplyShift(AfterFirst, DOMAIN AfterFirst, FALSE, SecondOp)
(* no column is ever shifted twice by one call: after the chain every provenance has at most two shifts, the second being the chain's *)
ChainShiftsOnce == c.chain => \A n \in DOMAIN AfterChain : Len(AfterChain[n][2]) <= 2
(* a duplicate in the selection changes nothing *)
DuplicateSelectionIsIdempotent == c.sel = "aa" => AfterFirst = ApplyShift(Frame0, {"a"}, c.inplace, FirstOp)

(* selected columns only: nothing outside the selection, and no non-numeric column, is ever transformed *)
OnlySelectedNumeric == Outcome.kind = "frame" => Outcome.transformed \subseteq (Selected(c.sel) \cap Numeric)
Emit == EmitCases => PrintT(ToJson([cfg |-> c, outcome |-> Outcome,
                                    chain |-> IF c.chain /\ ~Missing THEN [n \in DOMAIN AfterChain |-> [root |-> AfterChain[n][1], shifts |-> AfterChain[n][2]]] ELSE <<>>]))
=============================================================================
