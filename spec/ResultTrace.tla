----------------------------- MODULE ResultTrace -----------------------------
(***************************************************************************)
(* Trace specification for real analyses (random float records, real       *)
(* schedulers and windows, all backends).  One trace = one reference       *)
(* analysis of a two-channel record plus variant analyses of the same      *)
(* record; one event per bin.  All values are quantised by the recorder:   *)
(* spectra divided by the trace scale s = max over bins of max(Gxx, Gyy)   *)
(* (Q 2^20), transfer functions divided by sqrt(Gyy/Gxx) of their bin,     *)
(* the cross density by sqrt(Gxx*Gyy); errors in Q 2^12.                   *)
(*                                                                         *)
(* Event kinds (field t):                                                  *)
(*  "bin"     reference analysis: n (navg), K, coh, g = Gxy/sqrt(GxxGyy),  *)
(*            h = Hxy/sqrt(Gyy/Gxx), gxx, gyy, cx, rx, sx (GyyCx, GyyRx,   *)
(*            GyySx over Gyy), error bars and deviations over estimates,   *)
(*            empirical quantities                                         *)
(*  "swap"    same bin of the analysis with the channels exchanged         *)
(*  "alone"   same bin of the auto analysis of channel x (y) alone         *)
(*  "scale"   analysis of (c*x, d*y), c = cn/cd, d = dn/dd                 *)
(*  "relabel" analysis with sampling rate a*fs                             *)
(*  "winsum"  stored window sums of Kaiser analyses run back to back with  *)
(*            different side-lobe levels vs the recorder's own window      *)
(*  "gain"    y = g*x                                                      *)
(*  "delay"   y[n] = x[n-d]; (cp, sp) = cos/sin of -2 pi f d/fs            *)
(* Every "variant" event carries the index j of the reference bin.         *)
(* Clause names carry the property id.                                     *)
(***************************************************************************)
EXTENDS Exact, Json, IOUtils

Traces == JsonDeserialize(IOEnv.TRACE_FILE)
VARIABLES tid, l
vars == <<tid, l>>
Check(name, c) == IF c THEN TRUE ELSE PrintT(<<"FAIL", tid, l, name>>)   \* report and go on: every clause of every event is evaluated
T  == Traces[tid]
Ev == T.ev[l]
Q  == 1048576          \* 2^20
Q12 == 4096
QPI == 3294199         \* pi * 2^20
Init == tid \in 1..Len(Traces) /\ l = 1

Ref(j) == T.ev[j]      \* reference "bin" events come first, in bin order
Sq(a) == MulQ20(a, a)
Near(a, b, s) == Abs(a - b) <= s

(* Error bars as RATIOS (Q20, -1 = undefined), valid for every coherence in (0, 1] - also 1e-30 and 1 - 1e-13, where the      *)
(* absolute Q12 fields above are blind:                                                                                      *)
(*   kxy = Gxy_error^2 * g2 * n                     khm = Hxy_mag_error^2 * 2 g2 n / |1-g2|                                  *)
(*   kco = coh_error^2 * g2 * n / (2 (1-g2)^2)      rdxy, rdh, rdcoh = deviation / (estimate * normalised error)             *)
(*   pr  = Hxy_rad_error / Hxy_mag_error = asin(s)/s with s^2 = om = |1-g2|;  rd = Hxy_deg_error * pi / (180 Hxy_rad_error) *)
(* asin(s)/s = 1 + s^2/6 + 3 s^4/40 + ... with positive coefficients summing to pi/2 at s = 1, hence                        *)
(*   1 + s^2/6 + 3 s^4/40  <=  asin(s)/s  <=  1 + s^2/6 + (pi/2 - 7/6) s^4                                                  *)
UnitRatio(v) == v = -1 \/ Near(v, Q, 8)
ArcsineForm(e) ==
    e.pr = -1 \/ LET o2 == MulQ20(e.om, e.om) IN
                  /\ e.pr >= Q + (e.om \div 6) + ((3 * o2) \div 40) - 4
                  /\ e.pr <= Q + (e.om \div 6) + MulQ20(o2, 423761) + 4     \* (pi/2 - 7/6) * 2^20 = 423760.6
ErrorRatios(e) ==
    /\ Check("C10:Gxy_error_is_one_over_sqrt_coh_n", UnitRatio(e.kxy))
    /\ Check("C10:Hxy_mag_error_is_sqrt_one_minus_coh_over_2_coh_n", UnitRatio(e.khm))
    /\ Check("C10:coh_error_is_sqrt2_one_minus_coh_over_sqrt_coh_n", UnitRatio(e.kco))
    /\ Check("C10:Gxy_dev_is_estimate_times_error", UnitRatio(e.rdxy))
    /\ Check("C10:Hxy_dev_is_estimate_times_error", UnitRatio(e.rdh))
    /\ Check("C10:coh_dev_is_estimate_times_error", UnitRatio(e.rdcoh))
    /\ Check("C10:phase_error_is_arcsine_of_sqrt_one_minus_coh_over_sqrt_2_coh_n", ArcsineForm(e))
    /\ Check("C10:phase_error_equals_magnitude_error_as_coherence_tends_to_one", e.pr = -1 \/ e.om > 4 \/ e.pr <= Q + 4)
    /\ Check("C10:degree_error_is_radian_error_times_180_over_pi", UnitRatio(e.rd))
Errs == LET e == Ev IN
    /\ Check("C10:navg_is_number_of_averages", e.n = e.nD /\ e.n >= 1)
    /\ ErrorRatios(e)

BinEv ==
    LET e == Ev IN
    \* ---------------- C09 ----------------
    /\ Check("C09:coherence_in_unit_interval", e.coh >= 0 /\ e.coh <= Q + 4)
    /\ Check("C09:cross_density_bounded_by_auto_densities", Sq(e.g[1]) + Sq(e.g[2]) <= Q + 8)
    /\ Check("C09:coherence_is_normalised_cross_power", Near(Sq(e.g[1]) + Sq(e.g[2]), e.coh, 8))
    /\ Check("C09:single_segment_bins_have_unit_coherence", e.K # 1 \/ Near(e.coh, Q, 4))
    /\ Check("C09:coherent_plus_residual_is_output", Near(e.cx + e.rx, Q, 4))
    /\ Check("C09:residual_is_Gyy_times_one_minus_coherence", Near(e.sx, Q - e.coh, 6) /\ Near(e.rx, Q - e.coh, 4))
    /\ Check("C09:coherent_part_is_coherence_times_output", Near(e.cx, e.coh, 4))
    \* ---------------- C07 / C20 (H = conj(Gxy)/Gxx, normalised: h = conj(g)) ----------------
    /\ Check("C07:transfer_function_is_conj_cross_over_input", Near(e.h[1], e.g[1], 4) /\ Near(e.h[2], -e.g[2], 4))
    \* ---------------- C10 (skipped where the coherence is below 2^-8: the errors blow up) ----------------
    /\ Check("C10:navg_is_number_of_averages", e.n = e.K /\ e.n >= 1)
    /\ Check("C10:Gxx_error_is_one_over_sqrt_n", Near(e.exx * e.exx * e.n, 16777216, e.exx * e.n + e.n + 64))   \* (exx/2^12)^2 * n = 1
    /\ Check("C10:Gxx_dev_is_Gxx_times_error", Near(e.dxx, e.exx, 2))
    /\ (IF e.coh < 4096 THEN TRUE ELSE
         /\ Check("C10:Gxy_dev_is_estimate_times_error", Near(e.dxy, e.exy, 2 + e.exy \div 100000))
         /\ Check("C10:Hxy_dev_is_estimate_times_error", Near(e.dh, e.ehm, 2 + e.ehm \div 100000))
         /\ Check("C10:coh_dev_is_estimate_times_error", Near(e.dcoh, e.ecoh, 2 + e.ecoh \div 100000))
         \* Gxy_error^2 * coh * n = 1   (errors in Q12: e^2 in Q24 -> MulQ20 gives Q4 ... use ratios instead)
         /\ Check("C10:phase_error_at_least_magnitude_error", e.ehr >= e.ehm - 2)
         /\ Check("C10:phase_error_at_most_half_pi_times_magnitude_error", 2 * e.ehr <= MulQ20(e.ehm, QPI) + 8 + e.ehm \div 100000)
         /\ Check("C10:degree_error_is_radian_error_times_180_over_pi", Near(MulQ20(e.ehd, QPI), 180 * e.ehr, 100 + e.ehd \div 10000)))
    /\ ErrorRatios(e)
    \* ---------------- C11 ----------------
    /\ Check("C11:empirical_variance_nonnegative", e.ev >= 0 /\ e.m2 >= 0)
    /\ Check("C11:empirical_variance_is_scatter_over_n", Near(e.ev * e.n, e.m2, e.n + 2))
    /\ Check("C11:single_segment_has_zero_scatter", e.K # 1 \/ (e.m2 = 0 /\ e.ev = 0))
    /\ Check("C11:empirical_deviation_in_spectral_units", Near(Sq(e.ed), e.ev, 8 + e.ed \div 50000))
    \* ---------------- C20: derived quantities are views of one estimate ----------------
    /\ Check("C20:Gyx_and_Hyx_are_conjugates", Near(e.gyx[1], e.g[1], 2) /\ Near(e.gyx[2], -e.g[2], 2) /\ Near(e.hyx[1], e.h[1], 2) /\ Near(e.hyx[2], -e.h[2], 2))
    /\ Check("C20:cf_is_magnitude_of_Hxy", Near(Sq(e.cfn), Sq(e.h[1]) + Sq(e.h[2]), 8))
    /\ Check("C20:degree_phase_is_radian_phase_times_180_over_pi", Near(MulQ20(e.deg, QPI), 180 * e.rad, 100))
    /\ Check("C20:cs_is_csd_times_enbw", Near(e.csn, MulQ20(e.csdn, e.enbw), 8))
    /\ Check("C20:tf_is_Hxy_and_auto_quantities_are_None_for_cross_results", e.tfsame = 1 /\ e.nonek = 1)

Swap ==
    LET e == Ev  r == Ref(e.j) IN
    /\ Check("C09:coherence_unchanged_by_swap", Near(e.coh, r.coh, 4))
    /\ Check("C09:cross_density_conjugated_by_swap", Near(e.g[1], r.g[1], 4) /\ Near(e.g[2], -r.g[2], 4))
    /\ Check("C09:auto_densities_exchanged_by_swap", Near(e.gxx, r.gyy, 2) /\ Near(e.gyy, r.gxx, 2))

Alone ==
    LET e == Ev  r == Ref(e.j) IN
    /\ Check("C09:auto_density_same_alone_or_in_pair", Near(e.gxx, IF e.ch = 1 THEN r.gxx ELSE r.gyy, 2))
    /\ Check("C20:asd_squared_is_psd", Near(e.asd2, e.psd, 2) /\ Near(e.psd, e.gxx, 1))
    /\ Check("C20:ps_is_psd_times_enbw", Near(e.ps, MulQ20(e.psd, e.enbw), 8))
    /\ Check("C20:cross_quantities_are_None_for_auto_results", e.nonek = 1)

(* (c x, d y): Gxx c^2, Gyy d^2, Gxy c d, coherence unchanged, Hxy d/c *)
Scale ==
    LET e == Ev  r == Ref(e.j)
        c2n == e.cn * e.cn  c2d == e.cd * e.cd  d2n == e.dn * e.dn  d2d == e.dd * e.dd
        sg == Sign(e.cn) * Sign(e.dn)
    IN
    /\ Check("C06:density_scales_with_c_squared", Near(e.gxx * c2d, r.gxx * c2n, 2 * (c2n + c2d)) /\ Near(e.gyy * d2d, r.gyy * d2n, 2 * (d2n + d2d)))
    /\ Check("C06:coherence_unchanged_by_scaling", Near(e.coh, r.coh, 4))
    /\ Check("C06:cross_density_scales_with_c_times_d", Near(e.g[1], sg * r.g[1], 4) /\ Near(e.g[2], sg * r.g[2], 4))
    /\ Check("C06:transfer_function_scales_with_d_over_c", Near(e.h[1], sg * r.h[1], 4) /\ Near(e.h[2], sg * r.h[2], 4))
    /\ Check("C06:transfer_magnitude_scales_with_ratio", Near(e.hn * Abs(e.cn) * e.dd, r.hn * Abs(e.dn) * e.cd, 4 * (Abs(e.cn) * e.dd + Abs(e.dn) * e.cd)))

(* both channels times 2^e (e very negative or positive): every normalised quantity is unchanged *)
Tiny ==
    LET e == Ev  r == Ref(e.j) IN
    /\ Check("C06:coherence_unchanged_by_scaling", Near(e.coh, r.coh, 4))
    /\ Check("C06:cross_density_scales_with_c_times_d", Near(e.g[1], r.g[1], 4) /\ Near(e.g[2], r.g[2], 4))
    /\ Check("C06:transfer_function_scales_with_d_over_c", Near(e.h[1], r.h[1], 4) /\ Near(e.h[2], r.h[2], 4) /\ Near(e.hn, r.hn, 4))
    /\ Check("C06:density_scales_with_c_squared", Near(e.gxx, r.gxx, 2) /\ Near(e.gyy, r.gyy, 2))
    /\ Check("C07:gain_independent_of_signal_amplitude", Near(e.h[1], r.h[1], 4) /\ Near(e.h[2], r.h[2], 4) /\ Near(e.coh, r.coh, 4))

(* sampling rate a*fs: frequencies and ENBW times a, densities over a *)
Relabel ==
    LET e == Ev  r == Ref(e.j) IN
    /\ Check("C06:relabel_frequency_times_a", Near(e.fq * e.ad, r.fq * e.an, e.an + e.ad))
    /\ Check("C06:relabel_enbw_times_a", Near(e.enbw * e.ad, r.enbw * e.an, e.an + e.ad))
    /\ Check("C06:relabel_density_over_a", Near(e.gxx * e.an, r.gxx * e.ad, 2 * (e.an + e.ad)))
    /\ Check("C06:relabel_coherence_unchanged", Near(e.coh, r.coh, 4))

(* the same for an arbitrary real factor (the recorder has divided it out): the plan and every normalised field are those of the reference *)
RelabelX ==
    LET e == Ev  r == Ref(e.j) IN
    /\ Check("C06:relabel_keeps_the_segmentation", e.L = e.Lref /\ e.K = e.Kref)
    /\ Check("C06:relabel_frequency_times_a", Near(e.fq, r.fq, 2))
    /\ Check("C06:relabel_enbw_times_a", Near(e.enbw, r.enbw, 2))
    /\ Check("C06:relabel_density_over_a", Near(e.gxx, r.gxx, 4) /\ Near(e.gyy, r.gyy, 4))
    /\ Check("C06:relabel_coherence_unchanged", Near(e.coh, r.coh, 4))

(* ENBW = fs*sum(w^2)/(sum w)^2 : enbw (in units of fs/L, Q20) vs the captured window sums *)
Enbw ==
    LET e == Ev IN Check("C06:enbw_is_fs_S2_over_S12", Near(e.enbwq, e.enbwx, 4))

(* a bin of the full analysis against the reference estimator called directly with that bin's own plan entry *)
RefBin ==
    LET e == Ev IN
    /\ Check("C05:bin_is_the_reference_estimate_for_its_own_plan_entry", \A i \in 1..5 : Near(e.q[i], e.x[i], 4))
    /\ Check("C05:stored_window_sums_are_those_of_the_configured_window", Near(e.s12, e.xs12, 2) /\ Near(e.s2, e.xs2, 2))
    /\ Check("C05:K_navg_equal_number_of_starts", e.K = e.nD /\ e.navg = e.nD)

(* Kaiser analyses with different side-lobe levels run one after the other in the same process *)
WinSum ==
    LET e == Ev IN
    /\ Check("C05:stored_window_sums_are_those_of_the_configured_window", Near(e.s12, e.xs12, 2) /\ Near(e.s2, e.xs2, 2))
    /\ Check("C06:enbw_is_fs_S2_over_S12", Near(e.enbwq, e.enbwx, 4))

(* contract clause: a sinusoid of amplitude A at its own frequency gives ps = A^2/2 up to the leakage of its image line *)
Sine ==
    LET e == Ev IN
    /\ Check("C06:sinusoid_power_is_half_amplitude_squared", Near(e.psq, Q, e.bound))
    /\ Check("C06:enbw_is_fs_S2_over_S12", Near(e.enbwq, e.enbwx, 4))

(* single-bin analyses: n is the number of segments actually averaged *)
(* single-bin requests next to DC / Nyquist with the channels in both orders *)
Swap1 ==
    LET e == Ev IN
    /\ Check("C09:swap_conjugates_cross_spectrum", Near(e.g[1], e.gs[1], 4) /\ Near(e.g[2], -e.gs[2], 4))
    /\ Check("C09:swap_keeps_coherence", Near(e.coh, e.cohs, 4))
    /\ Check("C09:swap_exchanges_auto_spectra", Near(e.gxx, e.gyys, 2))
(* segments that are bit-identical (a tiled record, no overlap): the scatter is exactly zero *)
Identical ==
    LET e == Ev IN
    /\ Check("C11:scatter_never_negative", e.m2sign >= 0 /\ e.evsign >= 0)
    /\ Check("C11:empirical_deviation_is_a_real_number", e.devfinite = 1)
    /\ Check("C11:identical_segments_have_no_scatter", e.K < 2 \/ e.m2rel <= 4)
(* single-segment bin on a line that completes 4 cycles in the record, delayed copy: no averaging, no edge effect *)
DelayLine ==
    LET e == Ev
        dot == MulQ20(e.h[1], e.cp) + MulQ20(e.h[2], e.sp)
        crs == MulQ20(e.h[2], e.cp) - MulQ20(e.h[1], e.sp)
    IN /\ Check("C07:single_segment_delay_phase_is_minus_2pi_f_d_over_fs", dot > 0 /\ 16 * Abs(crs) <= dot + 16)
       /\ Check("C07:delay_magnitude_near_one", Sq(e.h[1]) + Sq(e.h[2]) >= 943718 /\ Sq(e.h[1]) + Sq(e.h[2]) <= 1153434)    \* 0.9 .. 1.1

Single ==
    LET e == Ev IN
    /\ Check("C11:empirical_variance_is_scatter_over_the_segments_averaged", Near(e.ev * e.nD, e.m2, e.nD + 2))
    /\ Check("C10:navg_is_number_of_averages", e.n = e.nD /\ e.K = e.nD /\ e.n >= 1)
    /\ Check("C10:Gxx_error_is_one_over_sqrt_n", e.exx <= 4097 /\ Near(e.exx * e.exx * e.nD, 16777216, e.exx * e.nD + e.nD + 64))
    /\ Check("C10:Gxx_dev_is_Gxx_times_error", Near(e.dxx, e.exx, 2))

Gain ==
    LET e == Ev IN
    IF e.dead = 1 THEN TRUE ELSE      \* a window without energy (np.hanning(2)): the bin carries no information, every estimate is 0
    /\ Check("C07:gain_recovered", Near(e.hg[1], Q, 8) /\ Near(e.hg[2], 0, 8))     \* H/g = 1
    /\ Check("C07:unit_coherence_for_proportional_channels", Near(e.coh, Q, 8))
    /\ Check("C09:unit_coherence_for_linearly_dependent_channels", Near(e.coh, Q, 8))

(* lagging output: H ~ exp(-i 2 pi f d/fs); asserted where L >= 32 d and at least 4 segments are averaged *)
Delay ==
    LET e == Ev
        dot == MulQ20(e.h[1], e.cp) + MulQ20(e.h[2], e.sp)
        crs == MulQ20(e.h[2], e.cp) - MulQ20(e.h[1], e.sp)
        mag2 == Sq(e.h[1]) + Sq(e.h[2])
    IN IF e.L < 32 * e.d \/ e.K < 4 THEN TRUE ELSE       \* (one to three segments: H = sum conj(X)Y / sum |X|^2 has a Rayleigh-small denominator with probability 1e-3)
       /\ Check("C07:delay_magnitude_near_one", mag2 >= 589824 /\ mag2 <= 1638400)         \* 0.75^2 .. 1.25^2
       /\ Check("C07:lagging_output_has_negative_phase", dot > 0 /\ 4 * Abs(crs) <= dot + 8)   \* |tan(err)| <= 1/4 (0.245 rad)
       \* single-bin requests over > 3000 segments (scatter < 0.0035 rad): the phase at the REPORTED frequency, |tan(err)| <= 1/64
       /\ Check("C07:single_bin_delay_phase_is_minus_2pi_f_d_over_fs", e.tight = 0 \/ (dot > 0 /\ 64 * Abs(crs) <= dot + 64))

Step ==
    /\ l <= Len(T.ev)
    /\ CASE Ev.t = "bin" -> BinEv
         [] Ev.t = "swap" -> Swap
         [] Ev.t = "alone" -> Alone
         [] Ev.t = "scale" -> Scale
         [] Ev.t = "relabel" -> Relabel
         [] Ev.t = "tiny" -> Tiny
         [] Ev.t = "relabelx" -> RelabelX
         [] Ev.t = "enbw" -> Enbw
         [] Ev.t = "refbin" -> RefBin
         [] Ev.t = "winsum" -> WinSum
         [] Ev.t = "sine" -> Sine
         [] Ev.t = "single" -> Single
         [] Ev.t = "errs" -> Errs
         [] Ev.t = "identical" -> Identical
         [] Ev.t = "swap1" -> Swap1
         [] Ev.t = "delayline" -> DelayLine
         [] Ev.t = "broken" -> Check("ANY:estimates_of_one_bin_are_mutually_consistent", FALSE)   \* the recorder could not normalise them (0 density next to positive power, ...)
         [] Ev.t = "shape" -> Check("ANY:variant_analysis_has_the_same_bins", Ev.nf = Ev.ref)   \* swapped / rescaled / relabelled records: same plan
         [] Ev.t = "gain" -> Gain
         [] Ev.t = "delay" -> Delay
    /\ l' = l + 1 /\ UNCHANGED tid

Next == Step
Spec == Init /\ [][Next]_vars
Done == (l = Len(T.ev) + 1) => PrintT(<<"OK", tid>>)
=============================================================================
