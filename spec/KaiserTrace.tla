------------------------------ MODULE KaiserTrace ------------------------------
(***************************************************************************)
(* Trace specification binding the real window construction and the        *)
(* measured side-lobe suppression to Kaiser.tla.                           *)
(*  [t |-> "call", psll, L, M, qbeta, qalpha, wlen, sym, peak, rise]       *)
(*     one call of the Kaiser function captured by a recording shim while  *)
(*     the analyzer builds its window: M and beta as passed, the alpha the *)
(*     analyzer configured, the length of the window actually used,        *)
(*     sym = max |w[n] - w[L-n]| * 2^30 over 1 <= n <= L-1,                *)
(*     peak = 1 iff (L odd or w[L/2] is the maximum and equals 1),         *)
(*     rise = 1 iff w[0] < w[1]                                            *)
(*  [t |-> "leak", psll, L, off100 (analysis offset in bins * 100),        *)
(*     cdb (response relative to the response at the sinusoid, centi-dB)]  *)
(***************************************************************************)
EXTENDS Kaiser, IOUtils
Traces == JsonDeserialize(IOEnv.TRACE_FILE)
VARIABLES tid, l
tvars == <<tid, l>>
Check(name, c) == IF c THEN TRUE ELSE PrintT(<<"FAIL", tid, l, name>>)   \* report and go on: every clause of every event is evaluated
T  == Traces[tid]
Ev == T.ev[l]
TInit == tid \in 1..Len(Traces) /\ l = 1
Call ==
    LET e == Ev IN
    /\ Check("C05:kaiser_alpha_is_the_configured_polynomial", Within(e.qalpha, AlphaQ(e.psll), 16))
    /\ Check("C05:kaiser_shape_is_alpha_times_pi", Within(e.qbeta, MulQ20(e.qalpha, QPI), 16))
    /\ Check("C12:window_built_for_the_requested_side_lobe_level", Within(e.qbeta, MulQ20(AlphaQ(e.psll), QPI), 32))
    /\ Check("C05:kaiser_built_with_L_plus_one_points", e.M = e.L + 1)
    /\ Check("C05:last_point_dropped", e.wlen = e.L)
    /\ Check("C05:window_is_dft_even", e.sym <= 4)
    /\ Check("C05:window_peaks_at_centre", e.peak = 1 /\ e.rise = 1)
Leak ==
    LET e == Ev IN
    \* asserted only beyond the main lobe: offset^2 > 1 + alpha^2  (offset in bins)
    IF e.off100 <= 3000 /\ CmpFrac(e.off100 * e.off100, 10000, HalfWidth2Q(e.psll), Q) <= 0 THEN TRUE
    ELSE Check("C12:sidelobes_at_least_P_minus_1_dB_down", e.cdb <= -(e.psll - 1) * 100)
Step ==
    /\ l <= Len(T.ev)
    /\ (IF Ev.t = "call" THEN Call ELSE Leak)
    /\ l' = l + 1 /\ UNCHANGED <<tid, psll, L, pc, alphaQ, betaQ, M, wlen>>
TNext == Step
TSpec == (TInit /\ psll = 40 /\ L = 64 /\ pc = "trace" /\ alphaQ = 0 /\ betaQ = 0 /\ M = 0 /\ wlen = 0) /\ [][TNext]_<<tvars, vars>>
Done == (l = Len(T.ev) + 1) => PrintT(<<"OK", tid>>)
=============================================================================
