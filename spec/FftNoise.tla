------------------------------ MODULE FftNoise ------------------------------
(***************************************************************************)
(* speckit/noise.py: fftnoise and band_limited_noise - the index logic of  *)
(* Hermitian synthesis.                                                    *)
(* A spectrum of length N (standard FFT order) has Np = (N-1) div 2        *)
(* strictly positive-frequency bins 1..Np, their mirrors N-k, the DC bin 0 *)
(* and, for even N, the Nyquist bin N/2.  Entries are symbolic:            *)
(*   [m |-> index of the prescribed magnitude, ph |-> phase tag]           *)
(*   ph = 0 real, k > 0 the random phase of bin k, -k its conjugate,       *)
(*   999 the caller's own (arbitrary) phase.                              *)
(*   Randomise  F[k] *= exp(i phi_k), k = 1..Np                            *)
(*   Mirror     F[N-k] = conj(F[k]),  k = 1..Np                            *)
(*   RealDC, RealNyquist (even N only)                                     *)
(***************************************************************************)
EXTENDS Integers, Sequences, FiniteSets, TLC, Json
CONSTANTS FNs, EmitCases,
          RealTopBinAlways      \* FALSE = the code; TRUE = the variant that also forces bin N div 2 real for odd N
VARIABLES N, F, pc
vars == <<N, F, pc>>
Np == (N - 1) \div 2
Init == /\ N \in FNs /\ F = [k \in 0..(N - 1) |-> [m |-> k, ph |-> 999]] /\ pc = "randomise"
Randomise == /\ pc = "randomise"
             /\ F' = [k \in 0..(N - 1) |-> IF k >= 1 /\ k <= Np THEN [m |-> k, ph |-> k] ELSE F[k]]
             /\ pc' = "mirror" /\ UNCHANGED N
Mirror == /\ pc = "mirror"
          /\ F' = [k \in 0..(N - 1) |-> IF k >= N - Np /\ k <= N - 1 THEN [m |-> N - k, ph |-> -(N - k)] ELSE F[k]]
          /\ pc' = "dc" /\ UNCHANGED N
RealDC == /\ pc = "dc" /\ F' = [F EXCEPT ![0] = [m |-> 0, ph |-> 0]] /\ pc' = "nyq" /\ UNCHANGED N
RealNyquist == /\ pc = "nyq"
               /\ F' = IF N % 2 = 0 \/ RealTopBinAlways THEN [F EXCEPT ![N \div 2] = [m |-> F[N \div 2].m, ph |-> 0]] ELSE F
               /\ pc' = "ifft" /\ UNCHANGED N
Next == Randomise \/ Mirror \/ RealDC \/ RealNyquist
Spec == Init /\ [][Next]_vars

ConjOf(e) == IF e.ph = 0 \/ e.ph = 999 THEN e ELSE [m |-> e.m, ph |-> -e.ph]
(* Hermitian symmetry => the inverse transform is real *)
Hermitian == pc = "ifft" => \A k \in 0..(N - 1) : F[(N - k) % N].ph # 999 /\ F[(N - k) % N] = ConjOf(F[k])
(* taking the real part of a bin with a random phase changes its magnitude: only DC and Nyquist may be forced real *)
MagnitudesKept == pc = "ifft" => \A k \in 1..Np : F[k] = [m |-> k, ph |-> k]
(* which prescribed magnitude every output bin carries *)
MagnitudeMap == [k \in 0..(N - 1) |-> F[k].m]
MirrorTakesPositiveSide == pc = "ifft" => \A k \in 1..Np : F[N - k].m = k
Emit == (pc = "ifft" /\ EmitCases) => PrintT(ToJson([N |-> N, map |-> [k \in 1..N |-> F[k - 1].m], realbins |-> {k \in 0..(N - 1) : F[k].ph = 0}]))
=============================================================================
