------------------------------ MODULE Analyzer ------------------------------
(***************************************************************************)
(* speckit/analysis.py: SpectrumAnalyzer.plan / compute / _lpsd_core /     *)
(* compute_single_bin on the exact lattice.                                *)
(*                                                                         *)
(* A scenario fixes the record(s), the window, the detrend order, the mode *)
(* and a plan injected through scheduler=<callable>: a sequence of bins    *)
(* [L, D, c2] (segment length, start vector, 2cos(w) of the bin's          *)
(* frequency), and optionally a band.  The state machine mirrors the code: *)
(*   PlanMiss / PlanHit        plan(): validate, band mask, cache          *)
(*   BuildWindow / ReuseWindow per-L window cache of _lpsd_core            *)
(*   BuildQ / ReuseQ           per-(L, order) detrend basis cache          *)
(*   KernelCall                one kernel invocation for bin i             *)
(*   Assemble                  results stored by bin index                 *)
(*   SingleBin                 compute_single_bin(freq, L=...)             *)
(* The value computed for a bin is KernelOps!DefStats for exactly that     *)
(* bin's (f, L, D) and the configured window - that is the property C05.   *)
(***************************************************************************)
EXTENDS KernelOps, Json

CONSTANTS Templates,    \* set of sequences of segment lengths
          Wins, Orders, Modes, EmitCases, NRec, Rots, BandSet

VARIABLES scn, planCache, winCache, qCache, i, calls, out, pc, ops
vars == <<scn, planCache, winCache, qCache, i, calls, out, pc, ops>>

RecA == <<2, -1, 0, 1, -2, 1, 2>>
RecB == <<1, 2, -1, -2, 2, 0, 1>>
RecC == <<0, 1, 4, 9, 16, 25, 36>>
Records == {<<[j \in 1..NRec |-> RecA[j]], [j \in 1..NRec |-> RecB[j]]>>,
            <<[j \in 1..NRec |-> RecC[j]], [j \in 1..NRec |-> RecA[j]]>>}

C2Rot == <<0, 1, -2, -1, 2>>
(* start-vector variants for a bin of length L (in range; repeated and unsorted starts included) *)
DVar(L, N) == IF N - L >= 1 THEN <<<<0>>, <<0, N - L>>, <<N - L, 0, 0>>, <<1, 0>>>> ELSE <<<<0>>, <<0, 0>>>>
(* plan frequencies: the lattice angle of c2 as a rational multiple of fs (fs = 1):  w = 2 pi f *)
FreqOf(c2) == CASE c2 = 2 -> <<0, 1>> [] c2 = 1 -> <<1, 6>> [] c2 = 0 -> <<1, 4>> [] c2 = -1 -> <<1, 3>> [] c2 = -2 -> <<1, 2>>

AllBands == {<<>>} \cup {<<lo, hi>> : lo \in {<<0, 1>>, <<1, 5>>, <<1, 4>>}, hi \in {<<1, 4>>, <<2, 5>>, <<1, 2>>}}   \* <<>> = no band
Bands == IF BandSet = "all" THEN AllBands ELSE {<<>>, <<<<1, 5>>, <<2, 5>>>>, <<<<1, 4>>, <<1, 2>>>>, <<<<2, 5>>, <<1, 4>>>>, <<<<0, 1>>, <<1, 4>>>>}

Init ==
    /\ \E t \in Templates : \E rot \in Rots : \E dsel \in 0..3 :
       \E rec \in Records : \E w \in Wins : \E o \in Orders : \E m \in Modes : \E band \in Bands :
          /\ scn = [N |-> NRec, x |-> rec[1], y |-> rec[2], win |-> w, order |-> o, mode |-> m, band |-> band,
                    bins |-> [p \in 1..Len(t) |->
                                LET dv == DVar(t[p], NRec) IN
                                [L |-> t[p], D |-> dv[((dsel + p) % Len(dv)) + 1], c2 |-> C2Rot[((p + rot - 1) % 5) + 1]]]]
    /\ planCache = <<>> /\ winCache = {} /\ qCache = {} /\ i = 0 /\ calls = <<>> /\ out = <<>> /\ pc = "idle" /\ ops = <<>>

BinFreq(b) == FreqOf(b.c2)
InBand(b) == scn.band = <<>> \/ (RLe(scn.band[1], BinFreq(b)) /\ RLe(BinFreq(b), scn.band[2]))
BandValid == scn.band = <<>> \/ RLe(scn.band[1], scn.band[2])
Masked == SelectSeq(scn.bins, InBand)

(* plan(): the injected plan is validated (starts inside the record, K = len(D)), then band filtered *)
PlanOk == \A p \in 1..Len(scn.bins) : LET b == scn.bins[p] IN
             b.L >= 1 /\ Len(b.D) >= 1 /\ \A q \in 1..Len(b.D) : b.D[q] >= 0 /\ b.D[q] + b.L <= scn.N

PlanMiss ==
    /\ pc = "idle" /\ planCache = <<>>
    /\ IF ~PlanOk \/ ~BandValid \/ Len(Masked) = 0
       THEN pc' = "error" /\ UNCHANGED planCache
       ELSE planCache' = Masked /\ pc' = "planned"
    /\ ops' = Append(ops, "plan")
    /\ UNCHANGED <<scn, winCache, qCache, i, calls, out>>

ComputeBegin ==
    /\ pc = "planned"
    /\ winCache' = {} /\ qCache' = {} /\ i' = 1 /\ calls' = <<>> /\ out' = <<>>
    /\ pc' = "window"
    /\ ops' = Append(ops, "compute")
    /\ UNCHANGED <<scn, planCache>>

Cur == planCache[i]

BuildOrReuseWindow ==
    /\ pc = "window"
    /\ winCache' = winCache \cup {Cur.L}
    /\ pc' = "basis"
    /\ UNCHANGED <<scn, planCache, qCache, i, calls, out, ops>>

BuildOrReuseQ ==
    /\ pc = "basis"
    /\ qCache' = IF scn.order >= 1 THEN qCache \cup {<<Cur.L, scn.order>>} ELSE qCache
    /\ pc' = "kernel"
    /\ UNCHANGED <<scn, planCache, winCache, i, calls, out, ops>>

KCfg(b) == [x |-> scn.x, y |-> scn.y, L |-> b.L, D |-> b.D, win |-> scn.win, c2 |-> b.c2, order |-> scn.order, mode |-> scn.mode]

KernelCall ==
    /\ pc = "kernel"
    /\ calls' = Append(calls, [i |-> i, L |-> Cur.L, D |-> Cur.D, c2 |-> Cur.c2, win |-> scn.win])
    /\ out' = Append(out, [stats |-> DefStats(KCfg(Cur)), scale |-> Scale(scn.order, Cur.L),
                           S1 |-> SumSeq(Win(scn.win, Cur.L)), S2 |-> Dot(Win(scn.win, Cur.L), Win(scn.win, Cur.L))])
    /\ IF i < Len(planCache) THEN i' = i + 1 /\ pc' = "window" ELSE i' = i /\ pc' = "done"
    /\ UNCHANGED <<scn, planCache, winCache, qCache, ops>>

Next == PlanMiss \/ ComputeBegin \/ BuildOrReuseWindow \/ BuildOrReuseQ \/ KernelCall
Spec == Init /\ [][Next]_vars

(***************************************************************************)
(* Invariants                                                              *)
(***************************************************************************)
(* every kernel invocation uses its own bin's length, starts, frequency and the configured window *)
CallsUseOwnBin == \A q \in 1..Len(calls) : calls[q].i = q /\ calls[q].L = planCache[q].L /\ calls[q].D = planCache[q].D /\ calls[q].c2 = planCache[q].c2
(* results are stored by bin index and equal the reference estimator of that bin *)
OutIsReference == \A q \in 1..Len(out) : out[q].stats = DefStats(KCfg(planCache[q]))
(* the band-restricted plan is the in-band sub-sequence of the unrestricted one, order preserved *)
BandIsSubsequence == planCache # <<>> => planCache = SelectSeq(scn.bins, InBand)
(* caches are transparent: a window for length L is the same function of L however often it is used *)
WindowSums == \A q \in 1..Len(out) : out[q].S1 = SumSeq(Win(scn.win, planCache[q].L)) /\ out[q].S2 >= 1
CacheOnlyPlanLengths == winCache \subseteq {planCache[q].L : q \in 1..Len(planCache)}

Case == [N |-> scn.N, x |-> scn.x, y |-> scn.y, win |-> scn.win, order |-> scn.order, mode |-> scn.mode,
         band |-> scn.band,
         bins |-> [p \in 1..Len(scn.bins) |-> [L |-> scn.bins[p].L, D |-> scn.bins[p].D, c2 |-> scn.bins[p].c2, f |-> BinFreq(scn.bins[p]),
                                                 winv |-> Win(scn.win, scn.bins[p].L)]],
         error |-> pc = "error",
         keptbins |-> IF pc = "error" THEN <<>> ELSE [q \in 1..Len(planCache) |-> [L |-> planCache[q].L, D |-> planCache[q].D, c2 |-> planCache[q].c2]],
         out |-> out]
Emit == ((pc = "done" \/ pc = "error") /\ EmitCases) => PrintT(ToJson(Case))
=============================================================================
