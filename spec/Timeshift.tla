------------------------------ MODULE Timeshift ------------------------------
(***************************************************************************)
(* speckit/dsp.py: lagrange_taps, timeshift (constant and time-varying     *)
(* path) and the df_timeshift wrapper, exactly.                            *)
(*                                                                         *)
(* Shifting by s = sInt + d (sInt = floor(s), 0 <= d < 1) with half-width  *)
(* h (order p = 2h-1) evaluates, for every sample n, the Lagrange          *)
(* polynomial through the 2h samples at n+sInt-(h-1) .. n+sInt+h at the    *)
(* point n+s:                                                              *)
(*    out[n] = sum_k Taps(d,h)[k] * Ext(n + sInt - (h-1) + k)              *)
(*    Taps(d,h)[k] = prod_{m # node_k} (d - m)/(node_k - m),               *)
(*                   node_k = k - (h-1), k = 0..2h-1                       *)
(* Ext is the record with its end values held (constant-shift path,        *)
(* dsp.py:1411-1430) or with zeros beyond it and the index clipped to      *)
(* [-(h+1), N+h-1] (time-varying path, dsp.py:1433-1446).                  *)
(***************************************************************************)
EXTENDS Exact, Json

CONSTANTS TNs, Hs, Fracs, EmitCases

VARIABLES c
vars == <<c>>

Node(k, h) == k - (h - 1)                            \* k = 0..2h-1
RECURSIVE TapProd(_, _, _, _)
TapProd(d, h, k, m) ==                              \* product over nodes m..h, skipping node_k
    IF m > h THEN <<1, 1>>
    ELSE IF m = Node(k, h) THEN TapProd(d, h, k, m + 1)
    ELSE RMul(RDiv(RSub(d, <<m, 1>>), <<Node(k, h) - m, 1>>), TapProd(d, h, k, m + 1))
Tap(d, h, k) == TapProd(d, h, k, -(h - 1))
Taps(d, h) == [k \in 0..(2 * h - 1) |-> Tap(d, h, k)]

RECURSIVE RSum(_, _, _)
RSum(f, lo, hi) == IF lo > hi THEN <<0, 1>> ELSE RAdd(f[lo], RSum(f, lo + 1, hi))

Clamp(i, N) == IF i < 0 THEN 0 ELSE IF i > N - 1 THEN N - 1 ELSE i
ExtHold(data, i) == <<data[Clamp(i, Len(data)) + 1], 1>>                       \* 0-based index, end values held
ExtZero(data, i) == IF i < 0 \/ i > Len(data) - 1 THEN <<0, 1>> ELSE <<data[i + 1], 1>>

(* constant path *)
OutConst(data, sInt, d, h) ==
    LET t == Taps(d, h) IN
    [n \in 0..(Len(data) - 1) |-> RSum([k \in 0..(2 * h - 1) |-> RMul(t[k], ExtHold(data, n + sInt - (h - 1) + k))], 0, 2 * h - 1)]
(* time-varying path: per-sample integer parts si[n] and fractions dd[n] *)
ClipIdx(i, N, h) == IF i < -(h + 1) THEN -(h + 1) ELSE IF i > N + (h - 1) THEN N + (h - 1) ELSE i
OutVar(data, si, dd, h) ==
    [n \in 0..(Len(data) - 1) |->
        LET t == Taps(dd[n + 1], h)  base == ClipIdx(n + si[n + 1], Len(data), h) IN
        RSum([k \in 0..(2 * h - 1) |-> RMul(t[k], ExtZero(data, base - (h - 1) + k))], 0, 2 * h - 1)]
Interior(n, sInt, N, h) == n + sInt - (h - 1) >= 0 /\ n + sInt + h <= N - 1

(* ---- records: polynomial sequences and an irregular one ---- *)
PolySeq(N, deg) == [i \in 1..N |-> IF deg = 0 THEN 3 ELSE IF deg = 1 THEN 2 * (i - 1) - 3 ELSE IF deg = 2 THEN (i - 1) * (i - 1) - 2 * (i - 1)
                                   ELSE IF deg = 3 THEN (i - 1) * (i - 1) * (i - 1) - 4 * (i - 1) ELSE (i - 1) * (i - 1) * (i - 1) * (i - 1) * (i - 1)]
Irregular == <<2, -1, 0, 4, -3, 1, 5, -2, 2, 0>>
Datas(N) == {PolySeq(N, g) : g \in 0..5} \cup {[i \in 1..N |-> Irregular[i]]}

Init == \E N \in TNs : \E h \in Hs : \E d \in Fracs : \E sInt \in (-(N + 2))..(N + 2) : \E data \in Datas(N) : \E v \in {0, 1} :
           c = [N |-> N, h |-> h, d |-> d, sInt |-> sInt, data |-> data,
                \* second per-sample shift used by the time-varying case: alternate between (sInt, d) and (sInt + v, 1/2)
                alt |-> v]
Next == UNCHANGED c
Spec == Init /\ [][Next]_vars

(* ---- invariants: the clauses of C16 on the exact model ---- *)
TapsSumToOne == RSum(Taps(c.d, c.h), 0, 2 * c.h - 1) = <<1, 1>>
ZeroShiftIsIdentity == (c.sInt = 0 /\ c.d = <<0, 1>>) => \A n \in 0..(c.N - 1) : OutConst(c.data, 0, c.d, c.h)[n] = <<c.data[n + 1], 1>>
IntegerShiftIsDisplacement ==
    c.d = <<0, 1>> => \A n \in 0..(c.N - 1) : OutConst(c.data, c.sInt, c.d, c.h)[n] = ExtHold(c.data, n + c.sInt)
(* polynomial reproduction: for the polynomial records of degree <= 2h-1 the interior output is the polynomial at n+s *)
PolyAt(deg, x) ==      \* the same polynomials as PolySeq at a rational point x (0-based abscissa)
    LET x2 == RMul(x, x)  x3 == RMul(x2, x) IN
    IF deg = 0 THEN <<3, 1>> ELSE IF deg = 1 THEN RSub(RMul(<<2, 1>>, x), <<3, 1>>) ELSE IF deg = 2 THEN RSub(x2, RMul(<<2, 1>>, x))
    ELSE IF deg = 3 THEN RSub(x3, RMul(<<4, 1>>, x)) ELSE RMul(x3, x2)
ReproducesPolynomials ==
    \A g \in 0..5 : (g <= 2 * c.h - 1 /\ c.data = PolySeq(c.N, g)) =>
        \A n \in 0..(c.N - 1) : Interior(n, c.sInt, c.N, c.h) =>
            OutConst(c.data, c.sInt, c.d, c.h)[n] = PolyAt(g, RAdd(<<n + c.sInt, 1>>, c.d))
PathsAgreeInInterior ==
    LET si == [n \in 1..c.N |-> c.sInt]  dd == [n \in 1..c.N |-> c.d] IN
    \A n \in 0..(c.N - 1) : Interior(n, c.sInt, c.N, c.h) => OutVar(c.data, si, dd, c.h)[n] = OutConst(c.data, c.sInt, c.d, c.h)[n]

AltSi == [n \in 1..c.N |-> IF n % 2 = 1 THEN c.sInt ELSE c.sInt + c.alt]
AltDd == [n \in 1..c.N |-> IF n % 2 = 1 THEN c.d ELSE <<1, 2>>]
Emit == EmitCases => PrintT(ToJson([N |-> c.N, h |-> c.h, d |-> c.d, sInt |-> c.sInt, data |-> c.data, alt |-> c.alt,
                                    taps |-> Taps(c.d, c.h),
                                    out |-> OutConst(c.data, c.sInt, c.d, c.h),
                                    outvar |-> OutVar(c.data, AltSi, AltDd, c.h),
                                    interior |-> [n \in 0..(c.N - 1) |-> Interior(n, c.sInt, c.N, c.h)]]))
=============================================================================
