------------------------------ MODULE ExactCheck ------------------------------
(***************************************************************************)
(* Self-check of the arithmetic helpers every specification relies on      *)
(* (the trusted base of the Q-format clauses): the product-free comparator *)
(* CmpFrac against cross multiplication, the limb product MulQ20 against   *)
(* the exact product where that fits, the rounding operators against their *)
(* definitions, the cross-reduced rational product.                        *)
(***************************************************************************)
EXTENDS Exact
CONSTANTS Range
VARIABLES a, b, c, d
Init == a \in 0..Range /\ b \in 1..Range /\ c \in 0..Range /\ d \in 1..Range
Next == UNCHANGED <<a, b, c, d>>
Spec == Init /\ [][Next]_<<a, b, c, d>>
CmpFracIsCrossMultiplication ==
    CmpFrac(a, b, c, d) = (IF a * d < c * b THEN -1 ELSE IF a * d = c * b THEN 0 ELSE 1)
(* scaled-up operands: the comparator never forms a product *)
CmpFracScaled == CmpFrac(a * 40000007, b * 40000007, c * 39999983, d * 39999983) = CmpFrac(a, b, c, d)
MulQ20Exact ==      \* on multiples of 2^10 the limb product is exact
    LET x == (a - c) * 1024 * 37  y == (b + d) * 1024 * 29 IN MulQ20(x, y) = ((a - c) * 37 * (b + d) * 29)
MulQ20Close ==      \* general operands: within 2 quanta of the exact quotient (operands small enough for an exact reference)
    LET x == a * 1021 + c  y == -(b * 977 + d) IN Abs(MulQ20(x, y) * 1048576 - x * y) <= 2 * 1048576 + 1048576
RoundingOps ==
    /\ Nearest(RoundHalfUp(a, b), a, b) /\ Nearest(RoundHalfEven(a, b), a, b)
    /\ RoundHalfUp(a, b) >= RoundHalfEven(a, b) /\ RoundHalfUp(a, b) - RoundHalfEven(a, b) <= 1
    /\ (RoundHalfUp(a, b) # RoundHalfEven(a, b) => IsTie(a, b))
    /\ Floor(a, b) * b <= a /\ a < (Floor(a, b) + 1) * b /\ Ceil(a, b) * b >= a /\ (Ceil(a, b) - 1) * b < a
RationalOps ==
    /\ RMul(R(a, b), R(c, d)) = R(a * c, b * d)
    /\ RAdd(R(a, b), R(c, d)) = R(a * d + c * b, b * d)
    /\ (RLt(R(a, b), R(c, d)) <=> a * d < c * b)
=============================================================================
