------------------------------ MODULE JdesTrace ------------------------------
(***************************************************************************)
(* Trace specification for the real find_Jdes_binary_search driven with a  *)
(* recording scheduler, and for SpectrumAnalyzer(force_target_nf=True).    *)
(*   c = [lo, hi, target]                                                  *)
(*   [t |-> "probe", J, nf]     one scheduler call made by the search      *)
(*   [t |-> "result", J]        what the search returned (-1 = None)       *)
(*   [t |-> "forced", nf, raised, jdes]  analyzer outcome: bins of the     *)
(*                                       final plan / RuntimeError         *)
(***************************************************************************)
EXTENDS Exact, Json, IOUtils

Traces == JsonDeserialize(IOEnv.TRACE_FILE)
VARIABLES tid, l, lower, upper, found
vars == <<tid, l, lower, upper, found>>
Check(name, c) == IF c THEN TRUE ELSE PrintT(<<"FAIL", tid, l, name>>)   \* report and go on: every clause of every event is evaluated
T  == Traces[tid]
Ev == T.ev[l]
None == -1

Init == tid \in 1..Len(Traces) /\ l = 1 /\ lower = T.c.lo /\ upper = T.c.hi /\ found = None

Probe ==
    /\ l <= Len(T.ev) /\ Ev.t = "probe"
    /\ Check("C04:probe_after_found", found = None)
    /\ Check("C04:probe_window_nonempty", lower <= upper)
    /\ Check("C04:probe_is_midpoint", Ev.J = (lower + upper) \div 2)
    /\ found' = IF Ev.nf = T.c.target THEN Ev.J ELSE None
    /\ lower' = IF Ev.nf < T.c.target THEN Ev.J + 1 ELSE lower
    /\ upper' = IF Ev.nf > T.c.target THEN Ev.J - 1 ELSE upper
    /\ l' = l + 1 /\ UNCHANGED tid

Result ==
    /\ l <= Len(T.ev) /\ Ev.t = "result"
    /\ Check("C04:search_returns_found_or_none", Ev.J = found)
    /\ Check("C04:search_gives_up_only_when_window_empty", Ev.J # None \/ lower > upper)
    /\ l' = l + 1 /\ UNCHANGED <<tid, lower, upper, found>>

Forced ==
    /\ l <= Len(T.ev) /\ Ev.t = "forced"
    /\ Check("C04:forced_count_exact_or_error", Ev.raised = 1 \/ Ev.nf = T.c.target)
    /\ Check("C04:forced_error_only_when_search_failed", Ev.raised = 0 \/ found = None)
    /\ Check("C04:forced_plan_uses_solved_Jdes", Ev.raised = 1 \/ Ev.jdes = found)
    /\ l' = l + 1 /\ UNCHANGED <<tid, lower, upper, found>>

Next == Probe \/ Result \/ Forced
Spec == Init /\ [][Next]_vars
Done == (l = Len(T.ev) + 1) => PrintT(<<"OK", tid>>)
=============================================================================
