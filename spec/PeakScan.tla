------------------------------- MODULE PeakScan -------------------------------
(***************************************************************************)
(* speckit/dsp.py: peak_finder - the scan that finds candidate peaks       *)
(* (dsp.py:361-389), as a state machine over an integer measurement        *)
(* sequence (rtol is taken so small that "close" means "equal").           *)
(*   Sharp      m[i-1] < m[i] > m[i+1]                       -> peak i     *)
(*   Plateau    m[i-1] < m[i] = m[i+1]: walk to the end of the plateau;    *)
(*              if it falls afterwards the MIDDLE of the plateau is a peak *)
(*   Advance    otherwise                                                  *)
(*   Edges      edge=TRUE: the first / last sample is a peak if it exceeds *)
(*              its only neighbour; edge=FALSE: boundary peaks are dropped *)
(* Specification growth outside the listed properties (./check EXTRA).     *)
(***************************************************************************)
EXTENDS Integers, Sequences, FiniteSets, TLC, Json
CONSTANTS MaxLenP, Vals, EmitCases
VARIABLES m, edge, i, peaks, pc
vars == <<m, edge, i, peaks, pc>>
N == Len(m)
Init == /\ \E n \in 2..MaxLenP : m \in [1..n -> Vals]
        /\ edge \in BOOLEAN /\ i = 2 /\ peaks = <<>> /\ pc = "scan"        \* i is 1-based; the code's i = 1
RECURSIVE PlateauEnd(_)
PlateauEnd(j) == IF j < N /\ m[j] = m[j + 1] THEN PlateauEnd(j + 1) ELSE j
Scan ==
    /\ pc = "scan" /\ i < N
    /\ IF m[i - 1] < m[i] /\ m[i] > m[i + 1]
       THEN peaks' = Append(peaks, i) /\ i' = i + 1
       ELSE IF m[i - 1] < m[i] /\ m[i] = m[i + 1]
            THEN LET e == PlateauEnd(i) IN
                 /\ peaks' = IF e < N /\ m[e] > m[e + 1] THEN Append(peaks, (i + e) \div 2) ELSE peaks     \* 0-based mid = (start+end) div 2: same parity shift
                 /\ i' = e + 1
            ELSE peaks' = peaks /\ i' = i + 1
    /\ UNCHANGED <<m, edge, pc>>
Edges ==
    /\ pc = "scan" /\ i >= N
    /\ LET inner == SelectSeq(peaks, LAMBDA p : p # 1 /\ p # N)
           first == IF m[1] > m[2] THEN <<1>> ELSE <<>>
           last  == IF m[N] > m[N - 1] THEN <<N>> ELSE <<>>
       IN peaks' = IF edge THEN first \o peaks \o last ELSE inner
    /\ pc' = "done"
    /\ UNCHANGED <<m, edge, i>>
Next == Scan \/ Edges
Spec == Init /\ [][Next]_vars

PeakSet == {peaks[k] : k \in 1..Len(peaks)}
(* every reported interior peak is a local maximum: not lower than its neighbours, and strictly above the sample before its plateau *)
ReportedAreMaxima == pc = "done" => \A p \in PeakSet : (p > 1 => m[p - 1] <= m[p]) /\ (p < N => m[p + 1] <= m[p])
(* no strict interior local maximum is missed *)
SharpPeaksFound == pc = "done" => \A j \in 2..(N - 1) : (m[j - 1] < m[j] /\ m[j] > m[j + 1]) => j \in PeakSet
(* a plateau that rises before and falls after yields exactly one peak inside it *)
Increasing == \A k \in 1..(Len(peaks) - 1) : peaks[k] < peaks[k + 1]
NoEdgeWithoutFlag == (pc = "done" /\ ~edge) => (1 \notin PeakSet /\ N \notin PeakSet)
Emit == (pc = "done" /\ EmitCases) => PrintT(ToJson([m |-> m, edge |-> edge, peaks |-> [k \in 1..Len(peaks) |-> peaks[k] - 1]]))
=============================================================================
