------------------------------- MODULE Exact -------------------------------
(***************************************************************************)
(* Exact arithmetic used by every SpecKit specification.                   *)
(*                                                                         *)
(*  - integers, gcd/lcm, floor/round with explicit tie handling            *)
(*  - rationals <<num, den>> (den > 0, reduced)                            *)
(*  - the ring Z[zeta] with zeta = exp(i*w), 2cos(w) = c2 in {-2,-1,0,1,2} *)
(*    (zeta^2 = c2*zeta - 1): elements are pairs <<a,b>> = a + b*zeta.     *)
(*    This is Z, Z[i] or the Eisenstein integers depending on c2, and it   *)
(*    is where the Goertzel recurrence of speckit/core.py lives when the   *)
(*    samples and the window are integers.                                 *)
(*  - Q-format helpers for quantised float observations (trace specs).     *)
(*                                                                         *)
(* TLC integers are 32 bit; every operator documents the magnitude it      *)
(* needs.  An overflow is reported by TLC as an error, never as a verdict. *)
(***************************************************************************)
EXTENDS Integers, Sequences, FiniteSets, TLC

Abs(x)  == IF x < 0 THEN -x ELSE x
Sign(x) == IF x < 0 THEN -1 ELSE IF x = 0 THEN 0 ELSE 1
Max(a, b) == IF a >= b THEN a ELSE b
Min(a, b) == IF a <= b THEN a ELSE b

RECURSIVE GCDp(_, _)
GCDp(a, b) == IF b = 0 THEN a ELSE GCDp(b, a % b)      \* a, b >= 0
GCD(a, b)  == GCDp(Abs(a), Abs(b))
LCM(a, b)  == IF a = 0 \/ b = 0 THEN 0 ELSE (Abs(a) \div GCD(a, b)) * Abs(b)

(* floor division and rounding; d > 0 *)
Floor(n, d)       == n \div d                           \* TLA+ \div is floor for d > 0
Ceil(n, d)        == -((-n) \div d)
RoundHalfUp(n, d) == (2 * n + d) \div (2 * d)           \* nearest, ties towards +inf
IsTie(n, d)       == (2 * n) % d = 0 /\ ((2 * n) \div d) % 2 # 0
(* "k is a nearest integer to n/d" (either neighbour at an exact tie) *)
Nearest(k, n, d)  == 2 * Abs(k * d - n) <= d
(* numpy.round / Python round: ties to even *)
RoundHalfEven(n, d) ==
    LET f == Floor(n, d) IN
    IF 2 * (n - f * d) < d THEN f
    ELSE IF 2 * (n - f * d) > d THEN f + 1
    ELSE IF f % 2 = 0 THEN f ELSE f + 1

(***************************************************************************)
(* Sequences of integers                                                   *)
(***************************************************************************)
RECURSIVE SumTo(_, _)
SumTo(s, n) == IF n = 0 THEN 0 ELSE s[n] + SumTo(s, n - 1)
SumSeq(s)   == SumTo(s, Len(s))
RECURSIVE DotTo(_, _, _)
DotTo(s, t, n) == IF n = 0 THEN 0 ELSE s[n] * t[n] + DotTo(s, t, n - 1)
Dot(s, t)   == DotTo(s, t, Len(s))
MaxAbsSeq(s) == IF Len(s) = 0 THEN 0
                ELSE LET S == {Abs(s[i]) : i \in 1..Len(s)} IN CHOOSE m \in S : \A k \in S : k <= m
SumAbs(s)   == SumSeq([i \in 1..Len(s) |-> Abs(s[i])])
RECURSIVE GCDSeqTo(_, _)
GCDSeqTo(s, n) == IF n = 0 THEN 0 ELSE GCD(s[n], GCDSeqTo(s, n - 1))
GCDSeq(s)   == GCDSeqTo(s, Len(s))
SubSeq0(s, start, len) == [i \in 1..len |-> s[start + i]]       \* 0-based start
IsStrictlyIncreasing(s) == \A i \in 1..(Len(s) - 1) : s[i] < s[i + 1]
IsNonDecreasing(s)      == \A i \in 1..(Len(s) - 1) : s[i] <= s[i + 1]
IsNonIncreasing(s)      == \A i \in 1..(Len(s) - 1) : s[i] >= s[i + 1]

(* exact comparison of a/b with c/d for positive 31-bit operands, no products *)
RECURSIVE CmpFrac(_, _, _, _)
CmpFrac(a, b, c, d) ==       \* returns -1, 0, 1 as a/b <,=,> c/d ; a,c >= 0 ; b,d > 0
    LET qa == a \div b  qc == c \div d
        ra == a % b     rc == c % d
    IN IF qa # qc THEN (IF qa < qc THEN -1 ELSE 1)
       ELSE IF ra = 0 /\ rc = 0 THEN 0
       ELSE IF ra = 0 THEN -1
       ELSE IF rc = 0 THEN 1
       ELSE -CmpFrac(b, ra, d, rc)

(***************************************************************************)
(* Rationals <<n, d>>                                                      *)
(***************************************************************************)
RNorm(r) == LET g == GCD(r[1], r[2]) IN
            IF r[2] = 0 THEN Assert(FALSE, "zero denominator")
            ELSE IF g = 0 THEN <<0, 1>>
            ELSE IF r[2] < 0 THEN <<-(r[1] \div g), (-(r[2])) \div g>> ELSE <<r[1] \div g, r[2] \div g>>
R(n, d)    == RNorm(<<n, d>>)
RInt(n)    == <<n, 1>>
RAdd(a, b) == LET d == LCM(a[2], b[2]) IN RNorm(<<a[1] * (d \div a[2]) + b[1] * (d \div b[2]), d>>)
RNeg(a)    == <<-a[1], a[2]>>
RSub(a, b) == RAdd(a, RNeg(b))
(* cross-reduced product: no intermediate exceeds the reduced result by more than a gcd *)
RMul(a, b) == IF a[1] = 0 \/ b[1] = 0 THEN <<0, 1>>
              ELSE LET g1 == GCD(a[1], b[2])  g2 == GCD(b[1], a[2])
                   IN <<(a[1] \div g1) * (b[1] \div g2), (a[2] \div g2) * (b[2] \div g1)>>
RInv(a)    == IF a[1] > 0 THEN <<a[2], a[1]>> ELSE IF a[1] < 0 THEN <<-a[2], -a[1]>> ELSE Assert(FALSE, "RInv(0)")
RDiv(a, b) == RMul(a, RInv(b))
(* product-free three-way comparison (operands up to 31 bits) *)
RCmp(a, b) == IF a[1] < 0 /\ b[1] >= 0 THEN -1
              ELSE IF a[1] >= 0 /\ b[1] < 0 THEN 1
              ELSE IF a[1] >= 0 THEN CmpFrac(a[1], a[2], b[1], b[2])
              ELSE -CmpFrac(-a[1], a[2], -b[1], b[2])
REq(a, b)  == RCmp(a, b) = 0
RLt(a, b)  == RCmp(a, b) < 0
RLe(a, b)  == RCmp(a, b) <= 0
RAbs(a)    == <<Abs(a[1]), a[2]>>
RFloor(a)  == Floor(a[1], a[2])
RRoundHalfUp(a) == RoundHalfUp(a[1], a[2])

(***************************************************************************)
(* The ring Z[zeta], zeta^2 = c2*zeta - 1                                  *)
(*   Re(a + b zeta) = a + b*c2/2         Im(a + b zeta) = b * sin(w)       *)
(*   sin(w) = sqrt(4 - c2^2)/2                                             *)
(***************************************************************************)
ZZero == <<0, 0>>
ZOne  == <<1, 0>>
ZAdd(u, v)      == <<u[1] + v[1], u[2] + v[2]>>
ZSub(u, v)      == <<u[1] - v[1], u[2] - v[2]>>
ZScale(k, u)    == <<k * u[1], k * u[2]>>
ZMul(c2, u, v)  == <<u[1] * v[1] - u[2] * v[2], u[1] * v[2] + u[2] * v[1] + c2 * u[2] * v[2]>>
ZConj(c2, u)    == <<u[1] + c2 * u[2], -u[2]>>
ZNorm(c2, u)    == u[1] * u[1] + c2 * u[1] * u[2] + u[2] * u[2]        \* |u|^2, an integer
Zeta            == <<0, 1>>
ZetaBar(c2)     == <<c2, -1>>                                           \* exp(-i w)
RECURSIVE ZPow(_, _, _)
ZPow(c2, u, n)  == IF n = 0 THEN ZOne ELSE ZMul(c2, u, ZPow(c2, u, n - 1))
(* Canonical observable form: <<2*Re, Im/sin(w)>>.  For c2 = +-2 the basis   *)
(* {1, zeta} is degenerate (zeta = +-1) and the imaginary part is zero.      *)
ZCanon(c2, u)   == <<2 * u[1] + c2 * u[2], IF c2 * c2 = 4 THEN 0 ELSE u[2]>>
ZEq(c2, u, v)   == ZCanon(c2, u) = ZCanon(c2, v)
Sin2x4(c2)      == 4 - c2 * c2                                          \* 4 sin^2(w)

(***************************************************************************)
(* Q-format helpers (quantised float observations in trace specs)          *)
(***************************************************************************)
Within(a, b, slack) == Abs(a - b) <= slack
(* a*b/S for |a|,|b| < 2^30, S = 2^20, from 15-bit limbs; error <= 2 quanta *)
MulQ20(a, b) ==
    LET sa == Sign(a)  sb == Sign(b)
        A == Abs(a)    B == Abs(b)
        a1 == A \div 32768   a0 == A % 32768
        b1 == B \div 32768   b0 == B % 32768
    IN sa * sb * ((a1 * b1 * 1024) + ((a1 * b0 + a0 * b1) \div 32) + ((a0 * b0) \div 1048576))
=============================================================================
