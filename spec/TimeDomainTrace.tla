---------------------------- MODULE TimeDomainTrace ----------------------------
(***************************************************************************)
(* Relations on quantised observations (Q 2^30) for what the exact model   *)
(* cannot hold in 32 bits: detrend orders 3..5 on long series, random      *)
(* grids/bands for the RMS integral, and the Parseval contract clause.     *)
(*  [t |-> "detrend", order, n, qdot (max normalised |<res, t^k>|, k <=    *)
(*      order), qidem (normalised |detrend(res) - res|), qpoly (residual   *)
(*      of a pure polynomial of that order, normalised)]                   *)
(*  [t |-> "rms", qadd (|rms^2(a,m) + rms^2(m,b) - rms^2(a,b)| / rms^2),   *)
(*      nested (1 iff the inner band's rms <= outer), qswap (|get_rms      *)
(*      with swapped ends - integral_rms|), qfull (|get_rms(None) -        *)
(*      integral_rms over the whole grid|), cross_raises]                  *)
(*  [t |-> "steep", qdef (|integral_rms^2 - trapezoid over the in-band      *)
(*      points| / that trapezoid) for a 1/f^3 ASD over six decades]        *)
(*  [t |-> "parseval", qratio = rms_spectrum/rms_time in Q 2^20]           *)
(***************************************************************************)
EXTENDS Exact, Json, IOUtils
Traces == JsonDeserialize(IOEnv.TRACE_FILE)
VARIABLES tid, l
vars == <<tid, l>>
Check(name, c) == IF c THEN TRUE ELSE PrintT(<<"FAIL", tid, l, name>>)   \* report and go on: every clause of every event is evaluated
T  == Traces[tid]
Ev == T.ev[l]
Init == tid \in 1..Len(Traces) /\ l = 1
Step ==
    /\ l <= Len(T.ev)
    /\ CASE Ev.t = "detrend" ->
              /\ Check("C19:residual_orthogonal_to_polynomials", Ev.n <= Ev.order + 1 \/ Ev.qdot <= 64)
              /\ Check("C19:detrend_idempotent", Ev.qidem <= 64)
              /\ Check("C19:polynomial_detrends_to_zero", Ev.qpoly <= 64)
         [] Ev.t = "detrend32" ->        \* single-precision samples: the residual comes back in single precision, "up to rounding" is 8 float32 epsilons (1e-6)
              /\ Check("C19:residual_orthogonal_to_polynomials", Ev.n <= Ev.order + 1 \/ Ev.qdot <= 1024)
              /\ Check("C19:detrend_idempotent", Ev.qidem <= 1024)
              /\ Check("C19:polynomial_detrends_to_zero", Ev.qpoly <= 1024)
         [] Ev.t = "rms" ->
              /\ Check("C19:get_rms_is_the_integral_for_every_band_asked", Ev.qedge <= 4)
              /\ Check("C19:band_rms_additive_in_power", Ev.qadd <= 64)
              /\ Check("C19:band_rms_monotone_under_nesting", Ev.nested = 1)
              /\ Check("C19:get_rms_is_the_integral_with_swapped_ends", Ev.qswap <= 4)
              /\ Check("C19:get_rms_default_is_full_band", Ev.qfull <= 4)
              /\ Check("C19:rms_not_available_for_cross_results", Ev.cross_raises = 1)
         [] Ev.t = "steep" ->
              Check("C19:band_rms_is_the_integral_over_the_in_band_points", Ev.qdef <= 64)
         [] Ev.t = "parseval" ->
              Check("C19:spectral_rms_reproduces_time_domain_rms", Ev.qratio >= 996147 /\ Ev.qratio <= 1101005)   \* within 5 %
    /\ l' = l + 1 /\ UNCHANGED tid
Next == Step
Spec == Init /\ [][Next]_vars
Done == (l = Len(T.ev) + 1) => PrintT(<<"OK", tid>>)
=============================================================================
