------------------------------- MODULE SegOps -------------------------------
(***************************************************************************)
(* How one frequency bin segments the record (C02, C04): number of         *)
(* averages, start placement, overlap.  Pure operators over integers and   *)
(* the overlap as a rational xov = <<xn, xd>> = 1 - olap (0 < xov <= 1).   *)
(*                                                                         *)
(*   Ideal(N,L)  = 1 + (N-L)/(xov*L)                 (a rational)          *)
(*   Cap(N,L)    = N-L+1                              distinct positions   *)
(*   K           = the integer nearest to min(Ideal, Cap), at least 1      *)
(*   start_i     = the integer nearest to i*(N-L)/(K-1),  i = 0..K-1       *)
(*   overlap     = mean over i of (L - (start_{i+1}-start_i))/L            *)
(*                                                                         *)
(* Theorems checked by TLC over all (N, L, xov) of a scope (see the        *)
(* invariants of the tiny state machine at the end): with the cap the      *)
(* placement is in range, strictly increasing, starts at 0 and ends at the *)
(* last sample; without it the same clauses fail exactly when Ideal > Cap. *)
(***************************************************************************)
EXTENDS Exact

IdealNum(N, L, xov) == xov[1] * L + (N - L) * xov[2]       \* Ideal = IdealNum / IdealDen
IdealDen(N, L, xov) == xov[1] * L
Cap(N, L)           == N - L + 1

(* the set of admissible K: nearest integers to the ideal (two at an exact tie), capped, >= 1 *)
KChoicesUncapped(N, L, xov) ==
    LET n == IdealNum(N, L, xov)  d == IdealDen(N, L, xov)
        hi == RoundHalfUp(n, d)
    IN {Max(1, hi)} \cup (IF IsTie(n, d) THEN {Max(1, hi - 1)} ELSE {})
KChoices(N, L, xov) == {Min(k, Cap(N, L)) : k \in KChoicesUncapped(N, L, xov)}
KOk(K, N, L, xov)   == K \in KChoices(N, L, xov)

(* start vector: D is a sequence (1-based) of 0-based sample indices *)
StartNearIdeal(D, i, K, N, L) ==          \* |D[i+1] - i*(N-L)/(K-1)| <= 1/2
    IF K = 1 THEN D[1] = 0 ELSE 2 * Abs(D[i + 1] * (K - 1) - i * (N - L)) <= K - 1
StartsOk(D, K, N, L) ==
    /\ Len(D) = K
    /\ D[1] = 0
    /\ \A i \in 0..(K - 1) : D[i + 1] >= 0 /\ D[i + 1] + L <= N
    /\ IsStrictlyIncreasing(D)
    /\ D[K] + L = N
    /\ \A i \in 0..(K - 1) : StartNearIdeal(D, i, K, N, L)

(* the placement the schedulers use (half-up; ties may go either way in floating point) *)
Placement(K, N, L) == [i \in 1..K |-> IF K = 1 THEN 0 ELSE RoundHalfUp((i - 1) * (N - L), K - 1)]

(* realised mean overlap as a rational <<num, den>> : mean((L - dD)/L), 0 for K = 1 *)
Overlap(D, K, L) == IF K = 1 THEN <<0, 1>> ELSE R(L * (K - 1) - (D[K] - D[1]), L * (K - 1))

=============================================================================
