---------------------------- MODULE Segmentation ----------------------------
(***************************************************************************)
(* TLC enumeration of the segmentation operators of SegOps.tla over a      *)
(* scope of (N, L, overlap): the placement theorems behind C02 / C04.      *)
(***************************************************************************)
EXTENDS SegOps
(***************************************************************************)
(* A one-step state machine so that TLC enumerates the scope.              *)
(***************************************************************************)
CONSTANTS SegNs, SegXovs
VARIABLES sN, sL, sK
Init == sN \in SegNs /\ sL \in 1..sN /\ \E x \in SegXovs : sK \in KChoices(sN, sL, x)
Next == UNCHANGED <<sN, sL, sK>>
Spec == Init /\ [][Next]_<<sN, sL, sK>>

(* given the single-segment rule (K = 1 => L = N, enforced in Sched.tla) the capped count places safely *)
PlacementIsSafe == (sK = 1 => sL = sN) => StartsOk(Placement(sK, sN, sL), sK, sN, sL)
(* and the rule is needed: a lone segment shorter than the record cannot both start at 0 and end at N *)
SingleNeedsWholeRecord == (sK = 1 /\ sL < sN) => ~StartsOk(Placement(sK, sN, sL), sK, sN, sL)
(* non-vacuity: without the cap the placement leaves the record exactly when Ideal > Cap *)
UncappedFailsIffOverCap ==
    \A x \in SegXovs : \A k \in KChoicesUncapped(sN, sL, x) :
        (k > Cap(sN, sL)) <=> ~IsStrictlyIncreasing(Placement(k, sN, sL))
=============================================================================
