#!/bin/sh
# Offline setup: nothing to build.  Verifies the tools the checks rely on and parses every specification.
set -e
cd "$(dirname "$0")"
command -v java >/dev/null
test -f /opt/veriftools/tla/tla2tools.jar
/venv/bin/python -c "import numpy, numba, scipy, pandas, hypothesis" 
mkdir -p work evidence
for f in spec/*.tla; do
  java -DTLA-Library=spec -cp /opt/veriftools/tla/tla2tools.jar:/opt/veriftools/tla/CommunityModules-deps.jar tla2sany.SANY "$f" > work/sany.out 2>&1 || { cat work/sany.out; exit 1; }
done
echo "setup ok"
