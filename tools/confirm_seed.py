#!/usr/bin/env python3
"""Confirm a seeded change on a scratch worktree of /repo's HEAD: the pinned test suite passes with it,
its demonstration fails with it and passes without.  usage: confirm_seed.py <name> <patch> <demo>"""
import json, os, re, shutil, subprocess, sys
name, patch, demo = sys.argv[1:4]
wt = f"/tmp/sc/{name}"
os.makedirs("/tmp/sc", exist_ok=True)
subprocess.run(["git", "-C", "/repo", "worktree", "remove", "--force", wt], capture_output=True)
shutil.rmtree(wt, ignore_errors=True)
subprocess.run(["git", "-C", "/repo", "worktree", "add", "--detach", wt, "HEAD", "-q"], check=True)
out = {"name": name, "head": subprocess.check_output(["git", "-C", "/repo", "rev-parse", "--short", "HEAD"], text=True).strip()}
try:
    env = dict(os.environ, PYTHONPATH=wt)
    r = subprocess.run(["/venv/bin/python", demo], cwd=wt, env=env, capture_output=True, text=True, timeout=1200)
    out["demo_without"] = r.returncode
    ap = subprocess.run(["git", "-C", wt, "apply", patch], capture_output=True, text=True)
    if ap.returncode != 0:      # the patch was written against the pinned commit; later fix: commits touch neighbouring lines
        ap = subprocess.run(["git", "-C", wt, "apply", "--3way", patch], capture_output=True, text=True)
        out["applied_with_3way"] = True
    out["applies"] = ap.returncode == 0
    if out["applies"]:
        r = subprocess.run(["/venv/bin/python", demo], cwd=wt, env=env, capture_output=True, text=True, timeout=1200)
        out["demo_with"] = r.returncode
        t = subprocess.run(["/venv/bin/python", "-m", "pytest", "-q", "-p", "no:cacheprovider", "--timeout=900"], cwd=wt, env=env, capture_output=True, text=True, timeout=7200)
        tail = t.stdout.strip().splitlines()[-1] if t.stdout.strip() else ""
        out["tests_exit"] = t.returncode
        out["tests_summary"] = tail
        m = re.search(r"(\d+) passed", tail)
        out["tests_passed"] = int(m.group(1)) if m else 0
finally:
    subprocess.run(["git", "-C", "/repo", "worktree", "remove", "--force", wt], capture_output=True)
    shutil.rmtree(wt, ignore_errors=True)
os.makedirs("/verif/seeded/_runs", exist_ok=True)
json.dump(out, open(f"/verif/seeded/_runs/{name}.confirm.json", "w"), indent=1)
print("CONFIRM", out)
