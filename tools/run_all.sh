#!/bin/sh
# run every registered quick (or thorough) check once, sequentially; summary on stdout
tier=${1:-quick}
cd /verif
for p in C01 C02 C03 C04 C05 C06 C07 C08 C09 C10 C11 C12 C13 C14 C15 C16 C17 C18 C19 C20; do
  s=$(date +%s)
  ./check $p --tier $tier > work/run_$p.log 2>&1
  rc=$?
  e=$(date +%s)
  echo "$p exit=$rc wall=$((e-s))s $(grep -c '^VIOLATION' work/run_$p.log) violations $(grep -c '^KNOWN-FINDING' work/run_$p.log) known"
done
