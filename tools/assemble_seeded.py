#!/usr/bin/env python3
"""Collect confirmed seeded changes into /verif/seeded/<id>/ (patch.diff, demo.py, meta.json) and write RESULTS.md."""
import glob, json, os, re, shutil
root = "/verif/seeded"
rows = []
for cf in sorted(glob.glob(f"{root}/_runs/*.confirm.json")):
    c = json.load(open(cf))
    name = c["name"]
    rnd2 = name.startswith("R2_")
    rnd3 = name.startswith("R3_")
    rnd4 = name.startswith("R4_")
    rnd5 = name.startswith("R5_")
    prop, var = name[3:].split("-") if (rnd2 or rnd3 or rnd4 or rnd5) else name.split("-")
    base = "/tmp/seed5_out" if rnd5 else "/tmp/seed4_out" if rnd4 else "/tmp/seed3_out" if rnd3 else "/tmp/seed2_out" if rnd2 else "/tmp/seed_out"
    src = f"{base}/{prop}/{var}"
    ok = c.get("applies") and c.get("demo_without") == 0 and c.get("demo_with") == 1 and c.get("tests_passed", 0) >= 99 and c.get("tests_exit") == 0
    runf = f"{root}/_runs/{name}.json"
    run = json.load(open(runf)) if os.path.exists(runf) else {}
    caught = {k: v["exit"] for k, v in run.get("checks", {}).items()}
    if ok and os.path.isdir(src):
        d = f"{root}/{name}"
        os.makedirs(d, exist_ok=True)
        shutil.copy(f"{src}/patch.diff", f"{d}/patch.diff")
        shutil.copy(f"{src}/demo.py", f"{d}/demo.py")
        notes = open(f"{base}/{prop}/{var[0]}/notes.md").read() if os.path.exists(f"{base}/{prop}/{var[0]}/notes.md") else ""
        needs = ""
        m = re.search(r"(?is)(what is needed to manifest|needs?[^\n]*manifest[^\n]*|## needs)[^\n]*\n(.{0,900})", notes)
        if m:
            needs = " ".join(m.group(2).split())[:700]
        json.dump({"breaks_property": prop, "variant": var, "written_by": "independent sub-agent given only the property text and a scratch worktree" + (" (second round: told which two ideas had already been used, nothing else)" if rnd2 else " (third round: told which ideas had been used and asked for conjunctions of unusual circumstances / numerical regimes / rarely used parameters)" if rnd3 else " (fourth round: additionally told that units, dtypes, long records, repeated calls, second objects, vanishing windows, extreme coherences and exact ties had been tried)" if rnd4 else " (fifth round: everything tried in rounds 1-4 excluded)" if rnd5 else ""),
                   "needs_to_manifest": needs or notes[:700],
                   "confirmed": {"on_head": c["head"], "applies": True, "pinned_tests_passed": c["tests_passed"], "tests_summary": c["tests_summary"],
                                 "demo_exit_without_change": c["demo_without"], "demo_exit_with_change": c["demo_with"],
                                 "how": "tools/confirm_seed.py on a scratch worktree of /repo HEAD (outside /repo and /verif), removed afterwards"},
                   "checks_run": {k: {"exit": v["exit"], "signatures": v.get("signatures", [])[:4]} for k, v in run.get("checks", {}).items()},
                   "detected_by": sorted(k for k, v in caught.items() if v == 1)}, open(f"{d}/meta.json", "w"), indent=1)
    elif ok and os.path.exists(f"{root}/{name}/meta.json"):
        # sources gone (scratch area cleaned): keep the stored copy, refresh the detection record
        m = json.load(open(f"{root}/{name}/meta.json"))
        m["checks_run"] = {k: {"exit": v["exit"], "signatures": v.get("signatures", [])[:4]} for k, v in run.get("checks", {}).items()}
        m["detected_by"] = sorted(k for k, v in caught.items() if v == 1)
        json.dump(m, open(f"{root}/{name}/meta.json", "w"), indent=1)
    rows.append((name, "confirmed" if ok else f"NOT confirmed ({ {k: c.get(k) for k in ('applies','demo_without','demo_with','tests_passed')} })", caught))
with open(f"{root}/RESULTS.md", "w") as fh:
    fh.write("# Seeded changes: confirmation and detection by the registered quick checks\n\n| seed | status | checks run (exit code: 1 = VIOLATION reported, 0 = missed, 2 = machinery failure) |\n|---|---|---|\n")
    for name, st, caught in rows:
        fh.write(f"| {name} | {st} | {caught} |\n")
print(open(f"{root}/RESULTS.md").read())
