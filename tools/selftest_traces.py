#!/usr/bin/env python3
"""Binding self-test: for every trace specification take a trace recorded by the last run of its check (work/traces/*.json),
corrupt ONE logged field of ONE event, and confirm that TLC accepts the original and rejects the corrupted copy, naming a clause.
usage: /venv/bin/python tools/selftest_traces.py     (run the quick checks first so that work/traces is populated)"""
import copy, json, sys
sys.path.insert(0, "/verif")
from vlib import traces, tlc
from vlib.tlc import Raw

# (trace file, module, field to corrupt, new value as a function of the old one, extra validate kwargs)
CASES = [
    ("C01_trace", "KernelTrace", ("q", 3), lambda v: -v - 5000, {}),
    ("C02_trace", "SchedTrace", "dlast", lambda v: v + 1, {}),
    ("C03_trace", "SchedTrace", "rl", lambda v: 7, {}),
    ("C04_trace", "SchedTrace", "navg", lambda v: v + 1, {}),
    ("C04_jdestrace", "JdesTrace", "J", lambda v: v + 1, {}),
    ("C05_trace", "AnalyzerTrace", ("q", 0), lambda v: v + 400, {}),
    ("C06_rtrace", "ResultTrace", "coh", lambda v: v + 5000, {}),
    # the longest clause names: TLC wraps the printed FAIL tuple over several lines (a parser that reads one line would miss it)
    ("C10_rtrace", "ResultTrace", "pr", lambda v: 1048576 + 300, {}),
    ("C08_trace", "DetrendTrace", "all", lambda v: v + 100000, {}),
    ("C12_trace", "KaiserTrace", "M", lambda v: v + 1, dict(constants=dict(Pslls=Raw("{40}"), KLs=Raw("{64}")), spec="TSpec")),
    ("C13_trace", "InputTrace", "changed", lambda v: 1, dict(constants=dict(SanitiseInPlace=False, NLen=4, EmitCases=False), spec="TSpec")),
    ("C14_schedtrace", "ScheduleTrace", "dig", lambda v: 2, {}),
    ("C15_trace", "MisoTrace", "r", lambda v: v + 1000000 if v >= 0 else v, {}),
    ("C16_trace", "TimeshiftTrace", "qsum", lambda v: v + 1000, {}),
    ("C17_trace", "NoiseTrace", "match", lambda v: 0, {}),
    ("C18_trace", "FilterTrace", "nsec", lambda v: v + 1, {}),
    ("C19_trace", "TimeDomainTrace", None, None, {}),
]


def corrupt(tr, field, fn):
    t = copy.deepcopy(tr)
    for e in t["ev"]:
        if "kind" in e and "K" in e and "q" in t.get("c", {}) and not (e["kind"] == "same" and e["K"] > t["c"]["q"]):
            continue            # MisoTrace asserts nothing on bins with K <= q segments: corrupt an asserted event
        if field is None:
            k = next((k for k, v in e.items() if isinstance(v, int) and not isinstance(v, bool) and k.startswith("q")), None)
            if k:
                e[k] = e[k] + 100000
                return t, k
            continue
        if isinstance(field, tuple):
            if field[0] in e:
                e[field[0]][field[1]] = fn(e[field[0]][field[1]])
                return t, field
        elif field in e:
            e[field] = fn(e[field])
            return t, field
    return None, None


ok = True
for fname, module, field, fn, kw in CASES:
    try:
        import glob, os
        cands = [p_ for p_ in glob.glob(f"/verif/work/traces/{fname}.json") + glob.glob(f"/verif/work/traces/{fname}_[0-9]*.json")]
        data = json.load(open(max(cands, key=os.path.getmtime)))          # large batches are validated in chunks <tag>_0, <tag>_1, ...
    except (FileNotFoundError, ValueError):
        print(f"{module:16s} no recorded traces ({fname}); run ./check first")
        ok = False
        continue
    base = next((t for t in data if len(t["ev"]) >= 1), None)
    bad, what = corrupt(base, field, fn)
    if bad is None:
        bad, what = corrupt(next(t for t in data if any(field in e if not isinstance(field, tuple) else field[0] in e for e in t["ev"])), field, fn)
    vd, _ = traces.validate(module, f"selftest_{fname}", [base, bad], **kw)
    good = (vd[0] == [] or all(c for c in vd[0]) is False)
    rejected = bool(vd[1])
    print(f"{module:16s} field {what!s:12s} original {'accepted' if vd[0] == [] else 'REJECTED ' + str(vd[0][:1])}; corrupted copy {'rejected: ' + vd[1][0][1] if rejected else 'ACCEPTED'}")
    ok = ok and vd[0] == [] and rejected
print("SELFTEST", "ok" if ok else "FAILED")
sys.exit(0 if ok else 1)
