#!/usr/bin/env python3
"""Run registered checks against a seeded change, on a scratch worktree of /repo's HEAD (outside /repo and /verif).

usage: try_seed.py <name> <patch.diff> <demo.py|-> <check id> [<check id> ...]
Writes /verif/seeded/_runs/<name>.json and prints a one-line summary.  The worktree is removed afterwards.
"""
import json
import os
import shutil
import subprocess
import sys
import time

name, patch, demo, checks = sys.argv[1], sys.argv[2], sys.argv[3], sys.argv[4:]
wt = f"/tmp/st/{name}"
out = {"name": name, "patch": patch, "checks": {}}
subprocess.run(["git", "-C", "/repo", "worktree", "remove", "--force", wt], capture_output=True)
shutil.rmtree(wt, ignore_errors=True)
os.makedirs("/tmp/st", exist_ok=True)
subprocess.run(["git", "-C", "/repo", "worktree", "add", "--detach", wt, "HEAD", "-q"], check=True)
try:
    env = dict(os.environ, PYTHONPATH=wt)
    if demo != "-":
        r = subprocess.run(["/venv/bin/python", demo], cwd=wt, env=env, capture_output=True, text=True, timeout=900)
        out["demo_before"] = r.returncode
    ap = subprocess.run(["git", "-C", wt, "apply", patch], capture_output=True, text=True)
    if ap.returncode != 0:
        ap = subprocess.run(["git", "-C", wt, "apply", "--3way", patch], capture_output=True, text=True)
    out["applied"] = ap.returncode == 0
    out["apply_msg"] = (ap.stderr or "")[-400:]
    if out["applied"]:
        if demo != "-":
            r = subprocess.run(["/venv/bin/python", demo], cwd=wt, env=env, capture_output=True, text=True, timeout=900)
            out["demo_after"] = r.returncode
        # run from a snapshot of /verif so that edits made while a campaign is running cannot tear a check
        snap = f"/tmp/st/{name}_verif"
        shutil.rmtree(snap, ignore_errors=True)
        subprocess.run(["rsync", "-a", "--exclude", "work", "--exclude", "seeded", "--exclude", "evidence", "--exclude", ".git", "/verif/", snap + "/"], check=True)
        for c in checks:
            e = dict(os.environ, SPECKIT_SRC=wt, VERIF_WORK_DIR=f"/tmp/st/{name}_work", VERIF_EVIDENCE_DIR=f"/tmp/st/{name}_ev")
            t0 = time.time()
            r = subprocess.run([f"{snap}/check", c, "--tier", "quick"], env=e, capture_output=True, text=True, timeout=7200)
            sigs = [l.strip() for l in r.stdout.splitlines() if l.strip().startswith("signature:")]
            out["checks"][c] = {"exit": r.returncode, "signatures": sigs[:12], "wall_s": round(time.time() - t0),
                                "tail": (r.stdout[-600:] + "\n--- stderr ---\n" + r.stderr[-1500:]) if r.returncode == 2 else ""}
finally:
    subprocess.run(["git", "-C", "/repo", "worktree", "remove", "--force", wt], capture_output=True)
    shutil.rmtree(wt, ignore_errors=True)
    shutil.rmtree(f"/tmp/st/{name}_work", ignore_errors=True)
    shutil.rmtree(f"/tmp/st/{name}_ev", ignore_errors=True)
    shutil.rmtree(f"/tmp/st/{name}_verif", ignore_errors=True)
os.makedirs("/verif/seeded/_runs", exist_ok=True)
json.dump(out, open(f"/verif/seeded/_runs/{name}.json", "w"), indent=1)
det = {c: v["exit"] for c, v in out["checks"].items()}
print(f"SEED {name}: applied={out.get('applied')} demo {out.get('demo_before')}->{out.get('demo_after')} checks={det}")
