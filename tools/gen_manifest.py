#!/usr/bin/env python3
"""Regenerate /verif/MANIFEST.json from the table below (one entry per property with a driver)."""
import json
import os
from pathlib import Path

VERIF = Path(__file__).resolve().parent.parent

MC = "model_checking"
CHECKS = {
    "C01": dict(
        level=MC, design="DESIGN.md §3 C01",
        technique="TLA+ model (Kernel.tla) checked by TLC + replay of every terminal state into the real kernels + TLC trace validation of recorded calls (KernelTrace.tla)",
        text="TLC explores every kernel call of the lattice scope (records x L x start vectors x windows x 5 angles x 4 orders x auto/cross), "
             "checks that the Goertzel state machine equals the windowed-DFT definition (loop invariant in every intermediate state); every terminal "
             "state is replayed into the 6 Numba kernels, the 6 NumPy fallbacks (two chunkings), the 6 CUDA wrappers (simulator) and both reducers with "
             "an exact expectation (sign of Im included); recorded float calls at scale are validated by KernelTrace.tla.",
        note="Trusts TLC, the lattice-completeness argument (statistics are polynomial forms in the data), IEEE exactness on the lattice, numba's CUDA simulator "
             "as a stand-in for a device, and the recorder's rounding budget for float traces."),
}

NOT_YET = "no check registered yet in this round (specification and driver under construction; see DESIGN.md §8)"


def main():
    props = [json.loads(l) for l in open(VERIF / "properties.jsonl")]
    checks, na = [], []
    for p in props:
        pid = p["id"]
        c = CHECKS.get(pid)
        if c is None or not (VERIF / "vlib" / "drivers" / f"{pid}.py").exists():
            na.append({"property_id": pid, "reason": NOT_YET})
            continue
        checks.append({
            "property_id": pid,
            "quick_cmd": f"./check {pid} --tier quick",
            "thorough_cmd": f"./check {pid} --tier thorough",
            "evidence_file": f"/verif/evidence/{pid}.json",
            "replay_cmd_template": "./check replay {path}",
            "engine": "tlc+python-conformance",
            "level_claimed": {"category": c["level"], "text": c["text"], "design_ref": c["design"]},
            "level_note": c["note"],
            "technique": c["technique"],
        })
    man = {
        "version": 1,
        "setup_cmd": "./setup.sh",
        "hooks": {
            "guard": "SPECKIT_VERIF",
            "enable": "no source hooks: observation is through the public API, module-global shims installed by the harness and recording callables; SPECKIT_VERIF=1 is exported by the harness only",
            "baseline_off_cmd": "cd /repo && /venv/bin/python -m pytest -ra -q -p no:cacheprovider --timeout=900 --continue-on-collection-errors",
            "source_commits": [],
            "add_only": True,
        },
        "engines": [{
            "name": "tlc+python-conformance",
            "path": "/verif/check",
            "serves_properties": [c["property_id"] for c in checks],
            "kind_free_text": "explicit TLA+ specifications under /verif/spec checked with TLC 1.8; conformance by replaying TLC-generated cases into the real code and by TLC validation of traces recorded from the real code",
        }],
        "checks": checks,
        "notes": "See DESIGN.md. Exit codes: 0 held, 1 VIOLATION, 2 machinery failure.",
        "not_applicable": na,
    }
    (VERIF / "MANIFEST.json").write_text(json.dumps(man, indent=1) + "\n")
    print(f"{len(checks)} checks, {len(na)} not claimed")


if __name__ == "__main__":
    main()
