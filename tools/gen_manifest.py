#!/usr/bin/env python3
"""Regenerate /verif/MANIFEST.json from the table below (one entry per property with a driver)."""
import json
import os
from pathlib import Path

VERIF = Path(__file__).resolve().parent.parent

MC = "model_checking"
CHECKS = {
    "C01": dict(
        level=MC, design="DESIGN.md §3 C01",
        technique="TLA+ model (Kernel.tla) checked by TLC + replay of every terminal state into the real kernels + TLC trace validation of recorded calls (KernelTrace.tla)",
        text="TLC explores every kernel call of the lattice scope (records x L x start vectors x windows x 5 angles x 4 orders x auto/cross), "
             "checks that the Goertzel state machine equals the windowed-DFT definition (loop invariant in every intermediate state); every terminal "
             "state is replayed into the 6 Numba kernels, the 6 NumPy fallbacks (two chunkings), the 6 CUDA wrappers (simulator) and both reducers with "
             "an exact expectation (sign of Im included); recorded float calls at scale are validated by KernelTrace.tla.",
        note="Trusts TLC, the lattice-completeness argument (statistics are polynomial forms in the data), IEEE exactness on the lattice, numba's CUDA simulator "
             "as a stand-in for a device, and the recorder's rounding budget for float traces."),
    "C02": dict(
        level=MC, design="DESIGN.md §3 C02",
        technique="TLA+ models (Segmentation.tla, Sched.tla) checked by TLC + replay of the model's plans into ltf_plan/lpsd_plan + TLC trace validation of recorded plans of all four schedulers and of analyzer.plan() (SchedTrace.tla)",
        text="TLC proves the placement theorems for every (N, L, overlap, K-choice) of the scope and checks the segment clauses on every bin of every behaviour of the exact "
             "rational LTF/LPSD loop; the model's plans are replayed into the real schedulers; thousands of real plans (grid + seeded random configurations, four schedulers, "
             "analyzer path) are validated clause by clause by SchedTrace.tla.",
        note="Trusts TLC, the rational-c instantiation of the model (irrational c only through traces), the recorder's projections of long start vectors and float relations (ulp distances)."),
    "C03": dict(
        level=MC, design="DESIGN.md §3 C03",
        technique="TLA+ model (Sched.tla grid invariants) checked by TLC + replay + TLC trace validation of recorded plans (SchedTrace.tla C03 clauses)",
        text="Grid invariants (first frequency, stepping, monotonicity, Nyquist, bin-number floor) hold in every state of the exact LTF/LPSD model; the model's frequencies are "
             "compared with the real schedulers'; every bin of thousands of recorded plans is validated by SchedTrace.tla (DFT constraint and stepping to 1 ulp, bin number, bmin floor).",
        note="As C02; ulp distances and the sign of f - fs/2 are measured by the recorder in floating point."),
    "C04": dict(
        level=MC, design="DESIGN.md §3 C04",
        technique="TLA+ models (Sched.tla, Segmentation.tla, JdesSearch.tla) checked by TLC + replay (plans, binary-search probe sequences) + TLC trace validation (SchedTrace.tla, JdesTrace.tla)",
        text="Monotonicity, nearest-count, even placement, realised overlap and the log-spacing rule are invariants of the exact model and clauses of SchedTrace.tla evaluated on every bin of "
             "recorded plans (log spacing re-derived per bin from the rule's own regime conditions); JdesSearch.tla is checked for every scheduler function of its scope and every run is "
             "replayed into find_Jdes_binary_search; real searches and forced plans are validated by JdesTrace.tla.",
        note="As C02; the log-spacing clause is evaluated for N<=512 with one quantum of slack; the 10 % bin-count clause grants one bin below 10 bins."),
    "C05": dict(
        level=MC, design="DESIGN.md §3 C05",
        technique="TLA+ model (Analyzer.tla over KernelOps.tla) checked by TLC + replay of every scenario into the real SpectrumAnalyzer + TLC trace validation where the spec recomputes the reference estimator (AnalyzerTrace.tla)",
        text="TLC walks plan()/compute() for every scenario of the scope (plan templates with repeated and distinct lengths, start-vector variants, frequency rotations, records, windows, orders, "
             "modes, bands incl. empty/invalid) and checks that every kernel call uses its own bin and every stored result is the reference estimator of that bin; each scenario is injected "
             "through scheduler=/win= callables and compared field by field on the numba and numpy backends; single-bin analyses of lattice records are validated by AnalyzerTrace.tla, which "
             "evaluates DefStats for the segmentation the result reports.",
        note="Trusts TLC, the lattice (exact expectations), injection through the public scheduler/win parameters; Kaiser construction is bound in C12."),
    "C13": dict(
        level=MC, design="DESIGN.md §3 C13",
        technique="TLA+ model (Input.tla) checked by TLC in both sanitising variants + materialisation of every model scenario as a real NumPy object run through the analyzer",
        text="The ownership/aliasing state machine is model-checked: with in-place sanitising TLC produces the aliasing counterexample (vacuity guard), with copy-on-sanitise CallerUntouched holds; "
             "every scenario (layout x dtype x memory order x non-finite kind x positions) is materialised and run on both CPU backends and several detrend orders: caller bytes unchanged, results "
             "bit-equal to the zero-filled canonical record; degenerate finite records give finite outputs in three access orders.",
        note="Trusts TLC and NumPy's aliasing semantics as modelled (ascontiguousarray returns its argument when already C-contiguous float64)."),
    "C20": dict(
        level=MC, design="DESIGN.md §3 C20",
        technique="TLA+ model (Result.tla: exact definition table, None table, interpolation, export, copy/pickle histories) checked by TLC + replay of every result and history on real SpectrumResult objects",
        text="Every attribute is defined as an exact rational/complex function of the base estimates; TLC checks the identities on the whole (coherence, n, magnitude, phase) grid and enumerates "
             "all operation histories (attribute access, interpolated measurement, DataFrame export, copy, deepcopy, pickle) up to a bound; every case is executed on a real SpectrumResult and "
             "each returned value, export column and measurement is compared, and previously returned arrays are checked for mutation.",
        note="Trusts TLC; results are built through the public constructor; transcendental attributes are compared through their defining relation."),
    "C06": dict(
        level=MC, design="DESIGN.md §3 C06",
        technique="TLA+ model (Result.tla calibration definitions) checked by TLC + replay on real SpectrumResult objects + TLC trace validation of recorded analyses (ResultTrace.tla: scaling, relabelling, ENBW, sinusoid contract)",
        text="ENBW, ps, density normalisation are exact definitions of Result.tla, replayed over the grid; the scaling and fs-relabelling laws, ENBW against recomputed windows and the A^2/2 sinusoid clause "
             "are clauses of ResultTrace.tla evaluated on every (sampled) bin of recorded analyses across four schedulers, four windows, orders and backends, including single-bin (L= and fres=) and injected-plan paths.",
        note="The sinusoid clause is a contract trace (measured value vs leakage bound evaluated by TLC): that clause alone is level 'other'. Trusts TLC and the recorder's quantisation."),
    "C07": dict(
        level=MC, design="DESIGN.md §3 C07",
        technique="TLA+ models (Kernel.tla cross mode, Result.tla transfer-function definitions) checked by TLC + replay into all backends + TLC trace validation of gain/delay analyses (ResultTrace.tla)",
        text="The sign of Im(X conj Y) is decided exactly on the lattice for the Numba, NumPy and simulated CUDA kernels; Hxy = conj(XY)/XX and its views are exact definitions replayed on real results; "
             "recorded analyses with y = g*x and y = delayed x on three backends are validated per bin (gain recovered, unit coherence, negative phase for a lag where L >= 32 d).",
        note="Delay clause bound 0.245 rad / 25 % covers the estimate's random error; cuda = numba simulator."),
    "C08": dict(
        level=MC, design="DESIGN.md §3 C08",
        technique="TLA+ model (Kernel.tla exact detrending lemmas on trend-bearing records) checked by TLC + replay into all backends + TLC trace validation of metamorphic analyses (DetrendTrace.tla)",
        text="DetrendAnnihilates / DetrendSensitive / OrderMinus1IsRaw / ResidualOrthogonal are invariants of the exact Gram-polynomial detrending in Kernel.tla; every terminal state on records with trends "
             "in x, y or both (different coefficients, degrees 0..3) is replayed into the kernels; metamorphic analyses with every order in one process are validated by DetrendTrace.tla.",
        note="Thresholds: invariance 2 quanta of 2^-30 relative to the trend's coherent sum, sensitivity 1000 quanta."),
    "C09": dict(
        level=MC, design="DESIGN.md §3 C09",
        technique="TLA+ model (Result.tla identities: CoherenceBounds, CauchySchwarz, CondSpectraAddUp, ResidualIsOptimal, GyxIsConjugate) checked by TLC + replay + TLC trace validation (ResultTrace.tla swap/alone/gain) + degenerate records",
        text="The identities are invariants over the whole result grid and every cross-spectral attribute is replayed on real objects; recorded analyses are validated per bin (bounds, swap symmetry, "
             "alone-vs-pair, conditioned spectra, optimal residual); zero/constant/identical channels are run in three attribute-access orders.",
        note="Coherence is 0 where a channel has no power (code convention). Q 2^20 normalised observations, 4-8 quanta."),
    "C10": dict(
        level=MC, design="DESIGN.md §3 C10",
        technique="TLA+ model (Result.tla squared Bendat-Piersol forms) checked by TLC + replay over the (g2, n, magnitude, phase) grid + TLC trace validation of recorded analyses (ResultTrace.tla C10 clauses)",
        text="All deviations and normalised errors are exact (squared) definitions; DevIsEstimateTimesError, ErrorsScaleWithN, AutoUsesUnitCoherence are invariants; every case is replayed on a real result; "
             "recorded analyses check navg, dev = estimate x error, the phase-error bounds and the degree/radian relation per bin.",
        note="The Monte-Carlo clause is distributional and not covered (DESIGN.md §0)."),
    "C11": dict(
        level=MC, design="DESIGN.md §3 C11",
        technique="TLA+ models (Kernel.tla scatter, Result.tla EmpiricalMapping) checked by TLC + replay into kernels/reducers and real results + TLC trace validation (KernelTrace.tla relative scatter, ResultTrace.tla)",
        text="The population scatter about the mean is part of KernelEqualsDefinition (K = 1..3, repeated/unsorted starts) and is replayed into every backend and both reducers; the mapping to spectral units is "
             "an invariant of Result.tla replayed on real results; at scale the scatter is compared relative to its own size on coherent lines far above the noise floor.",
        note="Agreement with analytic deviations for Gaussian noise is distributional and not covered."),
    "C14": dict(
        level=MC, design="DESIGN.md §3 C14",
        technique="TLA+ models (Prange.tla schedules, AnalyzerHist.tla call histories, Result.tla access histories) checked by TLC + execution of every history / thread x chunk configuration on the real code with bitwise comparison",
        text="Prange.tla proves slot discipline for every interleaving (the shared-scratch variant must show the race); every call history of AnalyzerHist.tla and every/simulated access history of Result.tla is "
             "executed on real objects and each answer compared bitwise with a fresh object's; the six Numba kernels and a full analysis run under every thread count x chunk size and must equal the single-thread digest.",
        note="A race that never manifests in the executed runs is not observed; the model shows the design is race free."),
    "C12": dict(
        level="other", design="DESIGN.md §3 C12",
        technique="TLA+ pipeline model (Kaiser.tla) checked by TLC + TLC trace validation (KaiserTrace.tla) of captured Kaiser calls and of measured side-lobe leakage against the property's bound (contract trace)",
        text="TLA+ does not model why a Kaiser window has its side-lobe level. The construction pipeline (alpha polynomial in fixed point, beta = pi*alpha, L+1 points, last dropped, DFT-even) is a model whose "
             "postconditions are bound to the code by a recording shim over the Kaiser function; the property's bound -(P-1) dB is evaluated by TLC on responses measured with compute_single_bin beyond "
             "sqrt(1+alpha^2) bins, for ascending and descending P within one process, L from 64 to 65536.",
        note="Contract trace: the analytic truth is not derived; the bound is the property's own. Known finding at P>=195, L<80 (0.33 dB beyond the allowance)."),
    "C15": dict(
        level=MC, design="DESIGN.md §3 C15",
        technique="TLA+ model (Miso.tla: residual formula vs least squares over Gaussian rationals) checked by TLC + replay through both solvers with stubbed exact spectra + TLC trace validation of random systems (MisoTrace.tla)",
        text="For q = 1, 2 TLC checks on every Gram matrix of the scope that the solvers' formula is real, within [0, S00], equals the least-squares residual, vanishes for exact combinations, is invariant under "
             "permutation and unimodular re-mixing and equals Gyy(1-coh) for one input (complex H included); every case is replayed through the analytic, numeric and SISO code paths with stubbed spectra; "
             "random systems with q = 1..4 and permuted / re-mixed / rescaled inputs, exact combinations and both solvers are validated per bin.",
        note="Clauses asserted on bins with more than q segments (singular otherwise). Stub of speckit.systems.ltf is harness side."),
    "C16": dict(
        level=MC, design="DESIGN.md §3 C16",
        technique="TLA+ models (Timeshift.tla exact taps / stencils / both paths; DfWrapper.tla case table) checked by TLC + replay into lagrange_taps, timeshift, df_timeshift + TLC trace validation for orders up to 111 (TimeshiftTrace.tla)",
        text="Exact rational Lagrange taps and outputs for every (record, order 1/3/5, integer part in -(N+2)..(N+2), fraction) with TLC-checked invariants (taps sum to one, polynomial reproduction, integer shift = "
             "displacement with held ends, zero shift = identity, path agreement); every case replayed (values, input immutability, repeatability); wrapper table replayed incl. non-default index and long delays; "
             "high orders through quantised relations.",
        note="Orders above 5 only through relations (sum, polynomial reproduction to degree 6, path agreement)."),
    "C17": dict(
        level=MC, design="DESIGN.md §3 C17",
        technique="TLA+ models (Noise.tla stream positions / filter-state hand-over / prefetch buffer; Iir.tla exact cascade) checked by TLC + replay of every history on the four generators bitwise against a twin + TLC trace validation of long call sequences (NoiseTrace.tla)",
        text="Every history of get_series/get_sample calls (sizes 0,1,2,3,7) is executed on white/red/alpha/pink generators and each block compared bitwise with the twin's single request at the model's stream position; "
             "the unrepaired zero-block variant must violate FilterStateConsistent; exact dyadic cascades with every split point are replayed into _numba_lfilter_cascade and scipy.lfilter; long random sequences (blocks beyond 2^16) are validated.",
        note="Prefetch size scaled through the module global; bitwise comparisons within one process."),
    "C18": dict(
        level=MC, design="DESIGN.md §3 C18",
        technique="TLA+ model (FftNoise.tla Hermitian mirror index logic) checked by TLC + replay into fftnoise / band_limited_noise + contract trace for the shaping filter (FilterTrace.tla)",
        text="The mirror/real-bin logic is model-checked for odd and even lengths (the variant forcing bin N div 2 real for odd N must fail); every length x magnitude pattern is replayed (DFT magnitudes, real output, "
             "input untouched), band-limited noise on a band grid; the 1/f^alpha filter response computed from the generator's own coefficients is validated against the property's tolerance, with coefficient structure and white variance.",
        note="Filter-response clause is a contract trace (level 'other' for that clause): bounds 1.5 dB interior / 3.5 dB to the corners."),
    "C19": dict(
        level=MC, design="DESIGN.md §3 C19",
        technique="TLA+ model (TimeDomain.tla exact LSQ residual and trapezoid band integral) checked by TLC + replay into polynomial_detrend, integral_rms, get_rms, df_detrend + TLC trace validation (TimeDomainTrace.tla)",
        text="Orthogonality, polynomial -> 0, idempotence and the order fallback are invariants of the exact residual; additivity at grid points, nesting and degenerate bands are invariants of the exact trapezoid integral "
             "over all half-integer bands; every case replayed; orders 3-5, random grids, swapped ends, cross-result error and the Parseval contract through traces.",
        note="Parseval clause is a contract trace on fixed white and pink records (5 %)."),
}

NOT_YET = "no check registered yet in this round (specification and driver under construction; see DESIGN.md §8)"


def main():
    props = [json.loads(l) for l in open(VERIF / "properties.jsonl")]
    checks, na = [], []
    for p in props:
        pid = p["id"]
        c = CHECKS.get(pid)
        if c is None or not (VERIF / "vlib" / "drivers" / f"{pid}.py").exists():
            na.append({"property_id": pid, "reason": NOT_YET})
            continue
        checks.append({
            "property_id": pid,
            "quick_cmd": f"./check {pid} --tier quick",
            "thorough_cmd": f"./check {pid} --tier thorough",
            "evidence_file": f"/verif/evidence/{pid}.json",
            "replay_cmd_template": "./check replay {path}",
            "engine": "tlc+python-conformance",
            "level_claimed": {"category": c["level"], "text": c["text"], "design_ref": c["design"]},
            "level_note": c["note"],
            "technique": c["technique"],
        })
    man = {
        "version": 1,
        "setup_cmd": "./setup.sh",
        "hooks": {
            "guard": "SPECKIT_VERIF",
            "enable": "no source hooks: observation is through the public API, module-global shims installed by the harness and recording callables; SPECKIT_VERIF=1 is exported by the harness only",
            "baseline_off_cmd": "cd /repo && /venv/bin/python -m pytest -ra -q -p no:cacheprovider --timeout=900 --continue-on-collection-errors",
            "source_commits": [],
            "add_only": True,
        },
        "engines": [{
            "name": "tlc+python-conformance",
            "path": "/verif/check",
            "serves_properties": [c["property_id"] for c in checks],
            "kind_free_text": "explicit TLA+ specifications under /verif/spec checked with TLC 1.8; conformance by replaying TLC-generated cases into the real code and by TLC validation of traces recorded from the real code",
        }],
        "checks": checks,
        "notes": "See DESIGN.md. Exit codes: 0 held, 1 VIOLATION, 2 machinery failure.",
        "not_applicable": na,
    }
    (VERIF / "MANIFEST.json").write_text(json.dumps(man, indent=1) + "\n")
    print(f"{len(checks)} checks, {len(na)} not claimed")


if __name__ == "__main__":
    main()
